"""C18 resource identity: bounded attribute store, cleaning rules, merge precedence."""
from .common import *
from pyvc.core import LogEntry

AT = "api/attributes/__init__.py"
RS = "api/resource/__init__.py"


def od_keys(h, d):
    """insertion-ordered key list of an OrderedDict (model field $okeys)"""
    return h.f(d, "$okeys")


def cv_domain(S_, h, v):
    """what the store can hold (the cleaning contracts let nothing else in): a primitive (bool, int, float, text), or a
    builtin list / tuple of primitives; no dictionaries, no nested sequences"""
    j = z3.Int("j!cvd")
    return And(Or(Not(Val.is_VRef(v)),
                  And(Val.r(v) > 0, Val.r(v) < h.snap.next_id,
                      Or(h.typeof(v) == S_.cid("tuple"), h.typeof(v) == S_.cid("list")), h.llen(v) >= 0)),
               z3.ForAll([j], Implies(And(Val.is_VRef(v), j >= 0, j < h.llen(v)), Not(Val.is_VRef(h.lget(v, j))))))


def attrs_domain(S_, h, a):
    """every key is text and every value a cleaned value"""
    d = h.f(a, "_dict")
    keys = h.f(d, "$okeys")
    j = z3.Int("j!atdom")
    return z3.ForAll([j], Implies(And(j >= 0, j < h.llen(keys)), And(
        Val.is_VStr(h.lget(keys, j)), cv_domain(S_, h, h.dget(d, h.lget(keys, j))))))


@class_invariant("BoundedAttributes")
def inv_ba(S_, a):
    h = S_.new
    d = h.f(a, "_dict")
    ml = h.f(a, "max_length")
    keys = od_keys(h, d)
    j, k = z3.Int("j!ba"), z3.Int("k!ba")
    from pyvc.contract import ATTRVAL
    S_.dict_values(d, ATTRVAL)       # declared typing of the store's values, justified by attrs_domain below
    rr = z3.Int("r!baown")
    own = z3.ForAll([rr], Implies(And(h.typeof(VRef(rr)) == S_.cid("BoundedAttributes"), rr != Val.r(a)), And(
        # ownership: every store has its own ordered dict (created by its constructor, never rebound) with its own key list
        h.f(VRef(rr), "_dict") != d, od_keys(h, h.f(VRef(rr), "_dict")) != keys)))
    return And(
        own,
        attrs_domain(S_, h, a),
        S_.pre(d, "OrderedDict"), S_.pre(keys, "list"), h.llen(keys) == h.dlen(d), h.llen(keys) >= 0,
        Or(Val.is_VNone(ml), And(Val.is_VInt(ml), iv(ml) >= 0)),
        Val.is_VInt(h.f(a, "dropped")), iv(h.f(a, "dropped")) >= 0,
        Or(Val.is_VNone(h.f(a, "max_value_len")), Val.is_VInt(h.f(a, "max_value_len"))),
        S_.pre(h.f(a, "_lock"), "Lock"), Val.is_VBool(h.f(a, "_immutable")),
        # capacity: never more than max_length entries
        Implies(Val.is_VInt(ml), h.dlen(d) <= iv(ml)),
        # representation of the ordered dict: the key list holds exactly the keys, each once
        z3.ForAll([j], Implies(And(j >= 0, j < h.llen(keys)), h.dhas(d, h.lget(keys, j)))),
        z3.ForAll([j, k], Implies(And(j >= 0, j < k, k < h.llen(keys)), h.lget(keys, j) != h.lget(keys, k))),
    )


Cleaned = z3.Function("Cleaned", Val, Val, Val, Val)      # _clean_attribute(key, value, max_len) (own contract below)

# ---------------------------------------------------------------- _clean_attribute_value
c = contract(AT, "_clean_attribute_value", ["C18"])
c.param("value", ANY).param("limit", OPT(INT))
c.result = VAL
c.host_ops_exc_base = "Exception"
c.logged = "_clean_attribute_value"
c.modifies = lambda S_: []


def _cav_post(S_):
    """None stays None; text is cut to the limit; other primitives pass unchanged (bytes: decoded or rejected)."""
    v, lim = S_.a.value, S_.a.limit
    r = S_.result
    cut = z3.SubString(sv(v), 0, z3.If(iv(lim) < 0, z3.If(z3.Length(sv(v)) + iv(lim) < 0, 0, z3.Length(sv(v)) + iv(lim)),
                                       z3.If(iv(lim) > z3.Length(sv(v)), z3.Length(sv(v)), iv(lim))))
    isb = And(Val.is_VRef(v), S_.old.typeof(v) == S_.cid("bytes"))
    dec = z3.Function("Decoded", Val, S)(v)
    okb = z3.Function("Utf8Decodable", Val, B)(v)
    cutd = z3.SubString(dec, 0, z3.If(iv(lim) < 0, z3.If(z3.Length(dec) + iv(lim) < 0, 0, z3.Length(dec) + iv(lim)),
                                      z3.If(iv(lim) > z3.Length(dec), z3.Length(dec), iv(lim))))
    return And(Implies(Val.is_VNone(v), Val.is_VNone(r)),
               # bytes: decoded first, then cut like any text; bytes that cannot be decoded are rejected
               Implies(And(isb, Not(okb)), Val.is_VNone(r)),
               Implies(And(isb, okb, Val.is_VNone(lim)), r == Val.VStr(dec)),
               Implies(And(isb, okb, Val.is_VInt(lim)), r == Val.VStr(cutd)),
               Implies(Val.is_VStr(v), Val.is_VStr(r)),
               Implies(And(Val.is_VStr(v), Val.is_VNone(lim)), r == v),
               Implies(And(Val.is_VStr(v), Val.is_VInt(lim), iv(lim) >= 0), r == Val.VStr(cut)),
               Implies(Or(Val.is_VInt(v), Val.is_VBool(v), Val.is_VFloat(v)), r == v))


c.ens("none-kept-text-cut-primitives-unchanged", _cav_post)

# ---------------------------------------------------------------- BoundedAttributes.__setitem__
c = contract(AT, "BoundedAttributes.__setitem__", ["C18"])
c.param("self", OBJ("BoundedAttributes")).param("key", ANY).param("value", ANY)
c.req("value-is-primitive", lambda S_: Not(Val.is_VRef(S_.a.value)))      # see _clean_attribute
c.req("key-is-primitive", lambda S_: Not(Val.is_VRef(S_.a.key)))
c.result = NONE
c.host_ops_exc_base = "Exception"
c.logged = "BoundedAttributes.__setitem__"
c.modifies = lambda S_: [("dict", S_.old.f(S_.a.self, "_dict")), ("list", od_keys(S_.old, S_.old.f(S_.a.self, "_dict"))),
                         ("field", S_.a.self, "dropped")]
c.sig("TypeError", "frozen-container-rejects-every-modification",
      cond=lambda S_: bv(S_.old.f(S_.a.self, "_immutable")),
      post=lambda S_: And(S_.new.dhas_arr(S_.old.f(S_.a.self, "_dict")) == S_.old.dhas_arr(S_.old.f(S_.a.self, "_dict")),
                          S_.new.dval_arr(S_.old.f(S_.a.self, "_dict")) == S_.old.dval_arr(S_.old.f(S_.a.self, "_dict")),
                          S_.f(S_.a.self, "dropped") == S_.old.f(S_.a.self, "dropped")))


def _set_post(S_, kind):
    """capacity 0: only the drop is counted; invalid (cleaned to None): nothing changes; existing key: value
    replaced and moved to the end, no drop; full: the OLDEST entry is evicted and the drop counted; every other
    key keeps its value (whole-view postcondition)."""
    if kind != "return":
        return []
    h, n = S_.old, S_.new
    me = S_.a.self
    d = h.f(me, "_dict")
    keys = od_keys(h, d)
    ml = h.f(me, "max_length")
    frozen = bv(h.f(me, "_immutable"))
    n0 = h.dlen(d)
    drop0, drop1 = iv(h.f(me, "dropped")), iv(n.f(me, "dropped"))
    cl = S_.calls("_clean_attribute")
    out = [("not-reached-when-frozen", "POST", Not(frozen), None),
           ("capacity-never-exceeded", "POST", Implies(Val.is_VInt(ml), n.dlen(d) <= iv(ml)), None)]
    zero = And(Val.is_VInt(ml), iv(ml) == 0)
    same = And(n.dhas_arr(d) == h.dhas_arr(d), n.dval_arr(d) == h.dval_arr(d), n.dlen(d) == n0,
               n.llen(keys) == h.llen(keys), n.larr(keys) == h.larr(keys))
    if not cl:
        out.append(("zero-capacity-only-counts-the-drop", "POST", And(zero, same, drop1 == drop0 + 1), None))
        return out
    cv = cl[0].result
    key = S_.a.key
    out.append(("cleaned-with-this-key-and-the-value-limit", "LOG", And(
        cl[0].args[0] == key, cl[0].args[1] == S_.a.value, cl[0].args[2] == h.f(me, "max_value_len")), None))
    out.append(("invalid-value-changes-nothing", "POST", Implies(Val.is_VNone(cv), And(same, drop1 == drop0)), None))
    had = h.dhas(d, key)
    full = And(Val.is_VInt(ml), n0 == iv(ml))
    oldest = h.lget(keys, 0)
    k = z3.Const("k!set", Val)
    others = lambda excl: z3.ForAll([k], Implies(And(k != key, *[k != e for e in excl]),
                                                 And(n.dhas(d, k) == h.dhas(d, k), n.dget(d, k) == h.dget(d, k))))
    stored = And(n.dhas(d, key), n.dget(d, key) == cv, n.lget(keys, n.llen(keys) - 1) == key)
    out.append(("existing-key-replaced-moved-to-end-no-drop", "POST", Implies(And(Not(Val.is_VNone(cv)), had), And(
        stored, n.dlen(d) == n0, drop1 == drop0, others([]))), None))
    out.append(("new-key-with-room-is-added", "POST", Implies(And(Not(Val.is_VNone(cv)), Not(had), Not(full)), And(
        stored, n.dlen(d) == n0 + 1, drop1 == drop0, others([]))), None))
    out.append(("full-evicts-the-oldest-and-counts-the-drop", "POST", Implies(And(Not(Val.is_VNone(cv)), Not(had), full), And(
        stored, n.dlen(d) == n0, drop1 == drop0 + 1, Not(n.dhas(d, oldest)), others([oldest]))), None))
    return out


c.exit_check(_set_post)


def _set_effect(S_):
    """The same whole-view statement as a heap postcondition (so that callers can rely on it): there is a cleaned value cv
    (None = rejected) such that the store changes as described above.  When the body is verified cv is the value the cleaning
    call returned; at a call site it is some value with the cleaning contract's properties."""
    h, n = S_.old, S_.new
    me, key = S_.a.self, S_.a.key
    d = h.f(me, "_dict")
    keys = od_keys(h, d)
    ml = h.f(me, "max_length")
    n0 = h.dlen(d)
    drop0, drop1 = iv(h.f(me, "dropped")), iv(n.f(me, "dropped"))
    if S_.at_call:
        cv = S_.fresh("cleaned", Val)
    else:
        cl = S_.calls("_clean_attribute")
        cv = cl[0].result if cl and cl[0].result is not None else VNone
    zero = And(Val.is_VInt(ml), iv(ml) == 0)
    same = And(n.dhas_arr(d) == h.dhas_arr(d), n.dval_arr(d) == h.dval_arr(d), n.dlen(d) == n0,
               n.llen(keys) == h.llen(keys), n.larr(keys) == h.larr(keys))
    had = h.dhas(d, key)
    full = And(Val.is_VInt(ml), n0 == iv(ml))
    oldest = h.lget(keys, 0)
    k = z3.Const("k!sete", Val)
    others = lambda excl: z3.ForAll([k], Implies(And(k != key, *[k != e for e in excl]),
                                                 And(n.dhas(d, k) == h.dhas(d, k), n.dget(d, k) == h.dget(d, k))))
    stored = And(n.dhas(d, key), n.dget(d, key) == cv)
    valid_key = And(Val.is_VStr(key), z3.Length(sv(key)) > 0)
    v = S_.a.value
    return And(
        # what a cleaned value can be (primitive inputs): rejected, or a primitive; numbers and booleans pass unchanged
        Or(Val.is_VNone(cv), Val.is_VInt(cv), Val.is_VBool(cv), Val.is_VFloat(cv), Val.is_VStr(cv)),
        Implies(And(Not(zero), Not(valid_key)), Val.is_VNone(cv)),
        Implies(And(Not(zero), valid_key, Or(Val.is_VInt(v), Val.is_VBool(v), Val.is_VFloat(v))), cv == v),
        Implies(zero, And(same, drop1 == drop0 + 1)),
        Implies(And(Not(zero), Val.is_VNone(cv)), And(same, drop1 == drop0)),
        Implies(And(Not(zero), Not(Val.is_VNone(cv)), had), And(stored, n.dlen(d) == n0, drop1 == drop0, others([]))),
        Implies(And(Not(zero), Not(Val.is_VNone(cv)), Not(had), Not(full)),
                And(stored, n.dlen(d) == n0 + 1, drop1 == drop0, others([]))),
        Implies(And(Not(zero), Not(Val.is_VNone(cv)), Not(had), full),
                And(stored, n.dlen(d) == n0, drop1 == drop0 + 1, Not(n.dhas(d, oldest)), others([oldest]))))


c.ens("store-updated-by-the-cleaned-value", _set_effect)

# _clean_attribute as seen by __setitem__ (its own table is proved separately)
c = contract(AT, "_clean_attribute", ["C18"])
c.param("key", ANY).param("value", ANY).param("max_len", OPT(INT))
# domain of this contract: primitive values and None (sequence cleaning - homogeneous sequences frozen to tuples -
# is not covered: its element-type reasoning is outside the engine's subset)
c.req("value-is-primitive", lambda S_: Not(Val.is_VRef(S_.a.value)))
c.req("key-is-primitive", lambda S_: Not(Val.is_VRef(S_.a.key)))
c.result = VAL
c.host_ops_exc_base = "Exception"
c.logged = "_clean_attribute"
c.modifies = lambda S_: []
c.ens("invalid-key-rejected", lambda S_: Implies(Not(And(Val.is_VStr(S_.a.key), z3.Length(sv(S_.a.key)) > 0)),
                                                 Val.is_VNone(S_.result)))
c.ens("primitive-cleaned-by-value-rule", lambda S_: Implies(
    And(Val.is_VStr(S_.a.key), z3.Length(sv(S_.a.key)) > 0, Or(Val.is_VInt(S_.a.value), Val.is_VBool(S_.a.value),
                                                               Val.is_VFloat(S_.a.value))), S_.result == S_.a.value))
c.ens("a-cleaned-primitive-is-a-primitive-or-rejected", lambda S_: Or(
    Val.is_VNone(S_.result), Val.is_VInt(S_.result), Val.is_VBool(S_.result), Val.is_VFloat(S_.result), Val.is_VStr(S_.result)))
c.max_paths = 1500

# ---------------------------------------------------------------- BoundedAttributes.__delitem__
c = contract(AT, "BoundedAttributes.__delitem__", ["C18"])
c.param("self", OBJ("BoundedAttributes")).param("key", ANY)
c.result = NONE
c.modifies = lambda S_: [("dict", S_.old.f(S_.a.self, "_dict")), ("list", od_keys(S_.old, S_.old.f(S_.a.self, "_dict")))]
c.sig("TypeError", "frozen-container-rejects-every-modification", cond=lambda S_: bv(S_.old.f(S_.a.self, "_immutable")))
c.sig("KeyError", "no-such-key", cond=lambda S_: And(Not(bv(S_.old.f(S_.a.self, "_immutable"))),
                                                     Not(S_.old.dhas(S_.old.f(S_.a.self, "_dict"), S_.a.key))))
c.ens("only-that-key-removed", lambda S_: And(
    Not(bv(S_.old.f(S_.a.self, "_immutable"))), Not(S_.new.dhas(S_.old.f(S_.a.self, "_dict"), S_.a.key)),
    S_.new.dlen(S_.old.f(S_.a.self, "_dict")) == S_.old.dlen(S_.old.f(S_.a.self, "_dict")) - 1,
    S_.new.dhas_arr(S_.old.f(S_.a.self, "_dict")) == z3.Store(S_.old.dhas_arr(S_.old.f(S_.a.self, "_dict")), S_.a.key, False),
    S_.new.dval_arr(S_.old.f(S_.a.self, "_dict")) == S_.old.dval_arr(S_.old.f(S_.a.self, "_dict"))))


def _prim_dict(S_, d):
    """domain restriction (see _clean_attribute): keys and values are primitives"""
    k = z3.Const("k!prim", Val)
    return z3.ForAll([k], Implies(S_.old.dhas(d, k), And(Not(Val.is_VRef(k)), Not(Val.is_VRef(S_.old.dget(d, k))))))


def prim_store(h, a):
    """every key and value of the store is a primitive (the domain these contracts cover; see _clean_attribute)"""
    d = h.f(a, "_dict")
    k = z3.Const("k!prims", Val)
    return z3.ForAll([k], Implies(h.dhas(d, k), And(Not(Val.is_VRef(k)), Not(Val.is_VRef(h.dget(d, k))))))


# ---------------------------------------------------------------- BoundedAttributes.__init__ / merge_in / copy / __len__
c = contract(AT, "BoundedAttributes.__init__", ["C18"])
c.param("self", OBJ("BoundedAttributes", inv=False)).param("max_length", OPT(INT)).param("attributes", OPT(DICT()))
c.param("immutable", BOOL).param("max_value_len", OPT(INT))
c.req("initial-attributes-are-primitive", lambda S_: Or(Val.is_VNone(S_.a.attributes), _prim_dict(S_, S_.a.attributes)))
# the object being constructed is new: it has no _immutable attribute yet, so getattr(self, "_immutable", False) is False
# until the constructor sets it (the model has no "absent": an absent attribute read with that default is False)
c.req("new-object-is-not-frozen-yet", lambda S_: S_.old.f(S_.a.self, "_immutable") == VFalse, new_object_fact=True)
c.protects = lambda S_: {"fields": ["max_length", "max_value_len", "_lock", "_dict", "_immutable", "$okeys"], "lists": [], "dicts": []}
c.result = NONE
c.host_ops_exc_base = "Exception"
c.logged = "BoundedAttributes.__init__"
c.modifies = lambda S_: [("all",)]
c.sig("ValueError", "capacity-must-be-a-non-negative-int", cond=lambda S_: And(Val.is_VInt(S_.a.max_length), iv(S_.a.max_length) < 0))
c.ens("frozen-last-after-the-initial-fill", lambda S_: And(
    S_.f(S_.a.self, "_immutable") == S_.a.immutable, S_.f(S_.a.self, "max_length") == S_.a.max_length,
    S_.f(S_.a.self, "max_value_len") == S_.a.max_value_len))
c.ens("holds-only-cleaned-primitives", lambda S_: And(
    S_.created_during_call(S_.f(S_.a.self, "_dict")), S_.isinst(S_.f(S_.a.self, "_dict"), "OrderedDict"),
    S_.created_during_call(od_keys(S_.new, S_.f(S_.a.self, "_dict"))),
    prim_store(S_.new, S_.a.self)))


def _init_fill(L):
    """the initial attributes go through the same bounded, cleaning set operation - while still unfrozen"""
    sets = [e for e in L.iter_log() if e.label == "BoundedAttributes.__setitem__"]
    if len(sets) != 1:
        return [("each-initial-attribute-set-once", z3.BoolVal(False))]
    return [("each-initial-attribute-set-once", And(sets[0].args[0] == L.local("self"), z3.BoolVal(not sets[0].raised)))]


def _init_inv(L):
    n = L.now()
    me = L.local("self")
    d = n.f(me, "_dict")
    return And(Val.is_VRef(d), n.typeof(d) == L.cid("OrderedDict"), prim_store(n, me))


c.loop("iter:attributes.items()", invariant=_init_inv, body_ensures=_init_fill, body_no_raise=True,
       modifies=lambda L: [("all",)])

c = contract(AT, "BoundedAttributes.merge_in", ["C18"])
c.param("self", OBJ("BoundedAttributes")).param("attributes", OBJ("BoundedAttributes"))
c.req("merged-attributes-are-primitive", lambda S_: _prim_dict(S_, S_.old.f(S_.a.attributes, "_dict")))
c.req("not-merging-a-store-into-itself", lambda S_: And(
    S_.a.self != S_.a.attributes, S_.old.f(S_.a.self, "_dict") != S_.old.f(S_.a.attributes, "_dict"),
    od_keys(S_.old, S_.old.f(S_.a.self, "_dict")) != od_keys(S_.old, S_.old.f(S_.a.attributes, "_dict"))))
c.result = NONE
c.host_ops_exc_base = "Exception"
c.logged = "merge_in"
c.modifies = lambda S_: [("dict", S_.old.f(S_.a.self, "_dict")), ("list", od_keys(S_.old, S_.old.f(S_.a.self, "_dict"))),
                         ("field", S_.a.self, "dropped")]
c.sig("TypeError", "frozen-container-rejects-every-modification", cond=lambda S_: bv(S_.old.f(S_.a.self, "_immutable")))
c.ens("a-store-of-primitives-stays-one", lambda S_: Implies(prim_store(S_.old, S_.a.self), prim_store(S_.new, S_.a.self)))


def _merge_inv(L):
    h, n = L.at_entry(), L.now()
    me = L.pre_local("self")
    return Implies(prim_store(h, me), prim_store(n, me))


def _merge_body(L):
    sets = [e for e in L.iter_log() if e.label == "BoundedAttributes.__setitem__"]
    return [("every-merged-attribute-is-set-once-on-this-store", And(
        z3.BoolVal(len(sets) == 1), sets[0].args[0] == L.pre_local("self") if sets else z3.BoolVal(False)))]


c.loop("iter:attributes.items()", invariant=_merge_inv, body_ensures=_merge_body,
       modifies=lambda L: [("dict", L.at_entry().f(L.pre_local("self"), "_dict")),
                           ("list", od_keys(L.at_entry(), L.at_entry().f(L.pre_local("self"), "_dict"))),
                           ("field", L.pre_local("self"), "dropped")])

c = contract(AT, "BoundedAttributes.copy", ["C18"])
c.param("self", OBJ("BoundedAttributes"))
c.result = FRESH("OrderedDict")
c.modifies = lambda S_: []
c.ens("a-copy-not-the-store-itself", lambda S_: And(
    S_.result != S_.old.f(S_.a.self, "_dict"),
    S_.new.dhas_arr(S_.result) == S_.old.dhas_arr(S_.old.f(S_.a.self, "_dict")),
    S_.new.dval_arr(S_.result) == S_.old.dval_arr(S_.old.f(S_.a.self, "_dict"))))

# ---------------------------------------------------------------- Resource.merge
@class_invariant("Resource")
def inv_resource(S_, r):
    h = S_.new
    return And(S_.pre(h.f(r, "_attributes"), "BoundedAttributes"), Val.is_VStr(h.f(r, "_schema_url")))


c = contract(RS, "Resource.__init__", ["C18"], coarse=True)
c.param("self", OBJ("Resource", inv=False)).param("attributes", VAL).param("schema_url", OPT(STR))
c.result = NONE
c.logged = "Resource.__init__"
c.modifies = lambda S_: [("all",)]
c.sig("Exception", "attribute-values-misbehave")
c.ens("schema-url-defaults-to-empty", lambda S_: S_.f(S_.a.self, "_schema_url") == If(Val.is_VNone(S_.a.schema_url), VStr(""), S_.a.schema_url))

c = contract(RS, "Resource.merge", ["C18"])
c.param("self", OBJ("Resource")).param("other", OBJ("Resource"))
c.result = VAL
c.logged = "Resource.merge"
c.host_ops_exc_base = "Exception"
c.modifies = lambda S_: [("all",)]
c.protects = lambda S_: {"fields": ["_attributes", "_schema_url", "_dict", "$okeys", "dropped", "max_length", "_immutable"],
                         "dicts": [S_.old.f(S_.old.f(S_.a.self, "_attributes"), "_dict"),
                                   S_.old.f(S_.old.f(S_.a.other, "_attributes"), "_dict")],
                         "lists": [od_keys(S_.old, S_.old.f(S_.old.f(S_.a.self, "_attributes"), "_dict")),
                                   od_keys(S_.old, S_.old.f(S_.old.f(S_.a.other, "_attributes"), "_dict"))]}
c.sig("Exception", "attribute-values-misbehave")
c.ens("result-is-a-new-resource-or-this-one-on-a-schema-conflict", lambda S_: Or(
    S_.result == S_.a.self, And(S_.created_during_call(S_.result), S_.isinst(S_.result, "Resource"))))


def _merge_operands(S_, kind):
    """merging never modifies either operand (attribute stores and schema urls are what they were)."""
    if kind != "return":
        return []
    h, n = S_.old, S_.new
    out = []
    for who in (S_.a.self, S_.a.other):
        a = h.f(who, "_attributes")
        d = h.f(a, "_dict")
        out.append(And(n.f(who, "_attributes") == a, n.f(a, "_dict") == d, n.dhas_arr(d) == h.dhas_arr(d),
                       n.dval_arr(d) == h.dval_arr(d), n.f(who, "_schema_url") == h.f(who, "_schema_url"),
                       n.f(a, "dropped") == h.f(a, "dropped")))
    su, so = sv(h.f(S_.a.self, "_schema_url")), sv(h.f(S_.a.other, "_schema_url"))
    incompatible = And(z3.Length(su) > 0, z3.Length(so) > 0, su != so)
    inits = S_.calls("Resource.__init__")
    res = [("neither-operand-is-modified", "POST", And(*out), None),
           ("incompatible-schemas-return-the-old-resource", "POST", Implies(incompatible, S_.result == S_.a.self), None)]
    if inits:
        merged = inits[0].args[1]
        hm = __import__("pyvc.contract", fromlist=["Heap"]).Heap(None, inits[0].pre)
        ds = h.f(h.f(S_.a.self, "_attributes"), "_dict")
        do = h.f(h.f(S_.a.other, "_attributes"), "_dict")
        kk = z3.Const("k!merge", Val)
        res.append(("later-source-overrides-earlier-key-by-key", "POST", z3.ForAll([kk], And(
            hm.dhas(merged, kk) == Or(h.dhas(ds, kk), h.dhas(do, kk)),
            hm.dget(merged, kk) == If(h.dhas(do, kk), h.dget(do, kk), h.dget(ds, kk)))), None))
        url = inits[0].args[2]
        res.append(("schema-url-rule", "POST", And(Not(incompatible), url == If(z3.Length(su) == 0, h.f(S_.a.other, "_schema_url"),
                                                                               If(z3.Length(so) == 0, h.f(S_.a.self, "_schema_url"),
                                                                                  h.f(S_.a.other, "_schema_url")))), None))
    return res


c.exit_check(_merge_operands)
