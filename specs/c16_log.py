"""C16 Log tracepoints emit the template with every field evaluated in place."""
from .common import *

LA = "processor/context/log_action.py"
ACTION_CTXS = ["SnapshotActionContext", "LogActionContext", "MetricActionContext", "SpanActionContext", "NoActionContext"]

# ---------------------------------------------------------------- LogActionContext.process_log
c = contract(LA, "LogActionContext.process_log", ["C16"])
c.param("self", OBJ("LogActionContext")).param("log_msg", VAL)
c.result = TUPLE(STR, VAL, VAL)
c.logged = "process_log"
c.host_ops_exc_base = "Exception"
c.modifies = lambda S_: [("all",)]
# a template the formatter cannot parse (e.g. unbalanced brace) is a configuration error of this tracepoint only
c.sig("Exception", "template-cannot-be-parsed")
c.ens("result-shape", lambda S_: And(
    z3.PrefixOf(z3.StringVal("[deep] "), sv(S_.new.lget(S_.result, 0))),
    Val.is_VRef(S_.new.lget(S_.result, 1)), S_.new.typeof(S_.new.lget(S_.result, 1)) == S_.cid("list"),
    S_.new.llen(S_.new.lget(S_.result, 1)) >= 0, S_.elems(S_.new.lget(S_.result, 1), OBJ("WatchResult", inv=False)),
    Val.is_VRef(S_.new.lget(S_.result, 2)), S_.new.typeof(S_.new.lget(S_.result, 2)) == S_.cid("dict")))
