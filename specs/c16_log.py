"""C16 Log tracepoints emit the template with every field evaluated in place."""
from .common import *

LA = "processor/context/log_action.py"
ACTION_CTXS = ["SnapshotActionContext", "LogActionContext", "MetricActionContext", "SpanActionContext", "NoActionContext"]

# ---------------------------------------------------------------- LogActionContext.process_log
c = contract(LA, "LogActionContext.process_log", ["C16"])
c.param("self", OBJ("LogActionContext")).param("log_msg", VAL)
c.result = TUPLE(STR, VAL, VAL)
c.logged = "process_log"
c.host_ops_exc_base = "Exception"
c.modifies = lambda S_: [("all",)]
# a template the formatter cannot parse (e.g. unbalanced brace) is a configuration error of this tracepoint only
c.sig("Exception", "template-cannot-be-parsed")
c.ens("result-shape", lambda S_: And(
    z3.PrefixOf(z3.StringVal("[deep] "), sv(S_.new.lget(S_.result, 0))),
    Val.is_VRef(S_.new.lget(S_.result, 1)), S_.new.typeof(S_.new.lget(S_.result, 1)) == S_.cid("list"),
    S_.new.llen(S_.new.lget(S_.result, 1)) >= 0, S_.elems(S_.new.lget(S_.result, 1), OBJ("WatchResult", inv=False)),
    # the variables collected for the fields: a table of its own (never the snapshot's)
    S_.created_during_call(S_.new.lget(S_.result, 2)), S_.new.typeof(S_.new.lget(S_.result, 2)) == S_.cid("dict")))

from pyvc.core import LogEntry, SymCallable
from pyvc.contract import extern

VFormat = z3.Function("VFormat", Val, S)       # the text string.Formatter produces for a template (opaque, trusted)


@extern("Formatter.vformat", "string.Formatter.vformat: literal text kept, {{ }} unescaped, each {field} replaced by "
                             "the formatted first component of get_field(field); ValueError for a malformed template")
def _vformat(it, args, kwargs, node, anchor):
    fmt_self, template = args[0], args[1]
    it.st.log.append(LogEntry("vformat", list(args), kwargs, None, anchor))
    k = it.ctx.choose([z3.Bool("template_has_no_field"), z3.Bool("template_has_a_field"), z3.Bool("template_malformed")],
                      "template shape")
    if k == 2:
        it.raise_("ValueError", anchor)
    if k == 1:
        # an arbitrary field of the template (for-each lifting over the fields)
        name = Val.VStr(it.ctx.fresh("field_name", S))
        gf = it.getattr_(fmt_self, "get_field", node)
        res = it.call_value(gf, [name, args[2], args[3]], {}, node, anchor=anchor + "/get_field")
        it.st.log.append(LogEntry("field_rendered", [name, res], {}, None, anchor))
    return Val.VStr(VFormat(template))


c = REGISTRY_PROCESS_LOG = __import__("pyvc.contract", fromlist=["REGISTRY"]).REGISTRY[LA + ":LogActionContext.process_log"]
c.req("template-is-text", lambda S_: Val.is_VStr(S_.a.log_msg))
c.ens("prefixed-template-text", lambda S_: sv(S_.new.lget(S_.result, 0)) == z3.Concat(z3.StringVal("[deep] "), VFormat(S_.a.log_msg)))


def _pl_log(S_, kind):
    """every {field} is evaluated once as a LOG watch in the paused frame, its watch result is collected and the
    text used for it is the string form eval_watch produced (error text when evaluation failed)."""
    if kind != "return":
        return []
    ews = S_.calls("eval_watch")
    fr = S_.calls("field_rendered")
    out = [("template-formatted-once", "LOG", z3.BoolVal(len(S_.calls("vformat")) == 1), None)]
    if fr:
        name, res = fr[0].args
        n = S_.new
        out.append(("field-evaluated-once-as-a-log-watch", "LOG", And(
            z3.BoolVal(len(ews) == 1), ews[0].args[1] == name if ews else z3.BoolVal(False),
            ews[0].args[2] == VStr("LOG") if ews else z3.BoolVal(False)), None))
        if ews:
            r = ews[0].result
            watches = n.lget(S_.result, 1)
            out.append(("field-text-and-watch-result-recorded", "LOG", And(
                n.lget(res, 0) == n.lget(r, 2), n.lget(res, 1) == name,
                n.llen(watches) == 1, n.lget(watches, 0) == n.lget(r, 0)), None))
    else:
        out.append(("no-field-no-watch", "LOG", z3.BoolVal(len(ews) == 0), None))
    return out


c.exit_check(_pl_log)

# ---------------------------------------------------------------- LogActionResult.process
@class_invariant("LogActionResult")
def inv_log_result(S_, r):
    h = S_.new
    return And(S_.pre(h.f(r, "action"), "LocationAction"), Val.is_VStr(h.f(r, "log")),
               Val.is_VStr(h.f(h.f(r, "action"), "LocationAction.__id")))


c = contract(LA, "LogActionResult.process", ["C16", "C20"])
c.param("self", OBJ("LogActionResult")).param("ctx", OBJ("TriggerContext"))
c.init_ghost = lambda S_: __import__("specs.c20_plugins", fromlist=["x"]).install_plugin_callbacks(S_)
c.result = VAL
c.host_ops_exc_base = "Exception"
c.logged = "ActionResult.process"
c.modifies = lambda S_: [("all",)]
c.sig("Exception", "logger-plugin-failed")       # contained per result by TriggerContext.__exit__


def _lar_log(S_, kind):
    """the message goes to the tracepoint logger labelled with the tracepoint's id and the trigger's context id,
    each in its own place: log_tracepoint(log_msg, tp_id, ctx_id)."""
    calls = S_.calls("log_tracepoint")
    if not calls:
        return []
    e = calls[0]
    h = S_.old
    tp_id = h.f(h.f(S_.a.self, "action"), "LocationAction.__id")
    ctx_id = h.f(S_.a.ctx, "TriggerContext.__id")
    return [("message-tracepoint-id-context-id-in-their-places", "LOG", And(
        z3.BoolVal(len(calls) == 1), e.args[1] == h.f(S_.a.self, "log"), e.args[2] == tp_id, e.args[3] == ctx_id), None)]


c.exit_check(_lar_log)

CS = "config/config_service.py"
# the logger is looked up among the plugins that are loaded *now*, every time it is asked for: nothing is written (no
# memo that a later change of the plugin list could leave stale), nothing escapes
c = contract(CS, "ConfigService.tracepoint_logger", ["C16", "C20"])
c.param("self", OBJ("ConfigService"))
c.result = OPT(HOSTOBJ)
c.logged = "tracepoint_logger"
c.modifies = lambda S_: []


def _tl_body(L):
    plugin = L.seq.element(L.index)
    ys = L.iter_yields()
    inst = IsSub(L.now().typeof(plugin), z3.IntVal(L.cid("TracepointLogger")))
    if not ys:
        return [("yields-the-plugin-iff-it-is-a-tracepoint-logger", Not(inst))]
    return [("yields-the-plugin-iff-it-is-a-tracepoint-logger", And(z3.BoolVal(len(ys) == 1), ys[0] == plugin, inst))]


c.loop((CS + ":ConfigService.__plugin_generator", "iter:self._plugins"), body_ensures=_tl_body, body_no_raise=True,
       modifies_kind="none")

from .c10_conditions import inv_action_context


@class_invariant("LogActionContext")
def inv_log_context(S_, a):
    """log actions are only built for tracepoints that carry a log message (build_log_action / snapshot log branch)"""
    h = S_.new
    cfg = h.f(h.f(a, "location_action"), "LocationAction.__config")
    return And(inv_action_context(S_, a), h.dhas(cfg, "log_msg"), Val.is_VStr(h.dget(cfg, "log_msg")))


# ---------------------------------------------------------------- LogActionContext._process_action
c = contract(LA, "LogActionContext._process_action", ["C16"])
c.param("self", OBJ("LogActionContext"))

c.result = VAL
c.logged = "_process_action"
c.modifies = lambda S_: [("all",)]
c.protects = lambda S_: {"fields": ["location_action", "trigger_context"], "lists": [], "dicts": []}
c.sig("Exception", "template-cannot-be-parsed")


def _lpa_log(S_, kind):
    if kind != "return":
        return []
    pl = S_.calls("process_log")
    att = S_.calls("attach_result")
    h = S_.old
    cfg = h.f(h.f(S_.a.self, "location_action"), "LocationAction.__config")
    out = [("one-message-per-permitted-hit", "LOG", z3.BoolVal(len(pl) == 1 and len(att) == 1), None)]
    if pl and att:
        n = S_.new
        res = att[0].args[1]
        out.append(("configured-template-rendered-and-attached", "LOG", And(
            pl[0].args[1] == h.dget_or(cfg, "log_msg", VNone),
            n.f(res, "log") == n.lget(pl[0].result, 0), n.f(res, "action") == h.f(S_.a.self, "location_action")), None))
    return out


c.exit_check(_lpa_log)


# ---------------------------------------------------------------- PythonPlugin.log_tracepoint (the shipped tracepoint logger)
c = contract("api/plugin/python.py", "PythonPlugin.log_tracepoint", ["C16"])
c.param("self", OBJ("PythonPlugin", inv=False)).param("log_msg", STR).param("tp_id", STR).param("ctx_id", STR)
c.result = NONE
c.modifies = lambda S_: []


def _pylog(S_, kind):
    """the rendered message is logged as it is - it is never used as a format string for further arguments - followed by the
    context id and the tracepoint id, each in its own place"""
    if kind != "return":
        return []
    infos = S_.calls("deep.logging.info")
    want = Val.VStr(z3.Concat(sv(S_.a.log_msg), z3.StringVal(" ctx="), sv(S_.a.ctx_id), z3.StringVal(" tracepoint="),
                              sv(S_.a.tp_id)))
    return [("message-logged-verbatim-with-context-and-tracepoint-ids", "LOG", And(
        z3.BoolVal(len(infos) == 1 and len(infos[0].args) == 1 and not infos[0].kwargs),
        infos[0].args[0] == want if infos and infos[0].args else z3.BoolVal(False)), None)]


c.exit_check(_pylog)
