"""Shared spec vocabulary: class invariants and spec functions used by several contracts."""
import z3
from pyvc.core import (Val, VNone, VTrue, VFalse, VInt, VStr, VBool, VRef, I, B, S, IntOk, IntOf, Lower, Strip,
                       Basename, ClassName, IsSub, StrOf, IdStr)
from pyvc.contract import (contract, extern, class_invariant, FRESH, VAL, SEQ, HOSTOBJ, ANY, INT, STR, BOOL, NONE, FLOAT, OBJ, LIST, TUPLE, DICT,
                           STRDICT, OPT, CALLABLE, FRAME, P, ite)

TRIGGER = "api/tracepoint/trigger.py"
TPCFG = "api/tracepoint/tracepoint_config.py"

And, Or, Not, Implies, If = z3.And, z3.Or, z3.Not, z3.Implies, z3.If


def iv(v):
    return Val.i(v)


def sv(v):
    return Val.s(v)


def bv(v):
    return Val.b(v)


# ----------------------------------------------------------------------------- spec functions
def spec_get_int(h, cfg, key, default):
    """Value of LocationAction.__get_int(key, default) for a config whose values are str or int.
    int(str) is the uninterpreted partial function (IntOk, IntOf) shared with the code."""
    v = h.dget_or(cfg, key, VInt(default))
    return If(Val.is_VInt(v), iv(v),
              If(Val.is_VBool(v), If(bv(v), 1, 0),
                 If(And(Val.is_VStr(v), IntOk(sv(v))), IntOf(sv(v)), z3.IntVal(default))))


def spec_in_window(start, end, ts):
    """Statement of C04: a window bound of 0 means 'not configured'."""
    return And(Or(start == 0, start <= ts), Or(end == 0, ts <= end))


def spec_limits_ok(h, action, ts):
    cfg = h.f(action, "LocationAction.__config")
    stats = h.f(action, "LocationAction.__stats")
    win = h.f(action, "LocationAction.__window")
    fc = spec_get_int(h, cfg, "fire_count", 1)
    fp = spec_get_int(h, cfg, "fire_period", 1000)
    fires = iv(h.f(stats, "_fire_count"))
    last = iv(h.f(stats, "_last_fire"))
    start, end = iv(h.f(win, "_start")), iv(h.f(win, "_end"))
    return And(Or(fc == -1, fires < fc),
               spec_in_window(start, end, ts),
               Or(last == 0, ts - last >= fp * 1000000))


# ----------------------------------------------------------------------------- class invariants
@class_invariant("TracepointWindow")
def inv_window(S_, w):
    h = S_.new
    return And(Val.is_VInt(h.f(w, "_start")), Val.is_VInt(h.f(w, "_end")),
               iv(h.f(w, "_start")) >= 0, iv(h.f(w, "_end")) >= 0)


@class_invariant("TracepointExecutionStats")
def inv_stats(S_, s):
    h = S_.new
    return And(Val.is_VInt(h.f(s, "_fire_count")), Val.is_VInt(h.f(s, "_last_fire")),
               iv(h.f(s, "_fire_count")) >= 0, iv(h.f(s, "_last_fire")) >= 0,
               # a recorded fire has a positive timestamp (time_ns() > 0)
               Implies(iv(h.f(s, "_fire_count")) > 0, iv(h.f(s, "_last_fire")) > 0),
               Implies(iv(h.f(s, "_fire_count")) == 0, iv(h.f(s, "_last_fire")) == 0))


def cfg_value_ok(v):
    """Config values for numeric keys come from Dict[str, str] tracepoint args (text) or are ints."""
    return Or(Val.is_VStr(v), Val.is_VInt(v))


def _location_typed(S_, loc):
    """an action is unattached, or attached to the Trigger it belongs to"""
    from pyvc.contract import CLASS_INVARIANTS
    inv = CLASS_INVARIANTS.get("Trigger")
    if inv is None:
        return Or(Val.is_VNone(loc), S_.pre(loc, "Trigger"))
    h = S_.new
    tl = h.f(loc, "Trigger.__location")
    shallow = And(S_.pre(loc, "Trigger"), Val.is_VRef(tl), Val.r(tl) > 0,
                  Or(And(h.typeof(tl) == S_.cid("LineLocation"), CLASS_INVARIANTS["LineLocation"](S_, tl)),
                     And(h.typeof(tl) == S_.cid("FunctionLocation"), CLASS_INVARIANTS["FunctionLocation"](S_, tl))))
    return Or(Val.is_VNone(loc), shallow)


@class_invariant("LocationAction")
def inv_action(S_, a):
    h = S_.new
    cfg = h.f(a, "LocationAction.__config")
    stats = h.f(a, "LocationAction.__stats")
    win = h.f(a, "LocationAction.__window")
    cond = h.f(a, "LocationAction.__condition")
    return And(
        S_.pre(cfg, "dict"),
        S_.pre(stats, "TracepointExecutionStats"), inv_stats(S_, stats),
        S_.pre(win, "TracepointWindow"), inv_window(S_, win),
        Implies(h.dhas(cfg, "fire_count"), cfg_value_ok(h.dget(cfg, "fire_count"))),
        Implies(h.dhas(cfg, "fire_period"), cfg_value_ok(h.dget(cfg, "fire_period"))),
        Or(Val.is_VNone(cond), Val.is_VStr(cond)),
        Implies(h.dhas(cfg, "frame_type"), Val.is_VStr(h.dget(cfg, "frame_type"))),
        Implies(h.dhas(cfg, "watches"), And(S_.pre(h.dget(cfg, "watches"), "list"), h.llen(h.dget(cfg, "watches")) >= 0,
                                            S_.elems(h.dget(cfg, "watches"), STR))),
        Implies(h.dhas(cfg, "log_msg"), Or(Val.is_VNone(h.dget(cfg, "log_msg")), Val.is_VStr(h.dget(cfg, "log_msg")))),
        Implies(h.dhas(cfg, "stage"), Val.is_VStr(h.dget(cfg, "stage"))),
        *[Implies(h.dhas(cfg, k), And(Val.is_VInt(h.dget(cfg, k)), iv(h.dget(cfg, k)) >= 0)) for k in
          ("MAX_STRING_LENGTH", "MAX_COLLECTION_SIZE", "MAX_VARIABLES", "MAX_VAR_DEPTH", "MAX_TP_PROCESS_TIME")],
        Val.is_VStr(h.f(a, "LocationAction.__id")),
        h.dlen(cfg) >= 0,
        Or(*[h.f(a, "LocationAction.__action_type") == S_.enum("LocationAction.ActionType", m)
             for m in ("Snapshot", "Log", "Metric", "Span")]),
        _location_typed(S_, h.f(a, "LocationAction.__location")),
    )
