"""Coarse contracts for the polymorphic action bodies (refined in the per-property files, which are loaded
later and replace these).  Coarse = may raise anything, may modify anything."""
from .common import *

for _f, _q in [("processor/context/snapshot_action.py", "SnapshotActionContext._process_action"),
               ("processor/context/log_action.py", "LogActionContext._process_action"),
               ("processor/context/metric_action.py", "MetricActionContext._process_action"),
               ("processor/context/span_action.py", "SpanActionContext._process_action")]:
    c = contract(_f, _q, [], coarse=True)
    c.param("self", OBJ(_q.split(".")[0]))
    c.result = ANY
    c.modifies = lambda S_: [("all",)]
    c.sig("BaseException", "any-failure")

# results of actions: processed when the trigger context closes (refined by C09/C16/C20 specs)
for _f, _q in [("processor/context/log_action.py", "LogActionResult.process"),
               ("processor/context/snapshot_action.py", "SendSnapshotActionResult.process"),
               ("processor/context/snapshot_action.py", "DeferredSnapshotActionResult.process"),
               ("processor/context/span_action.py", "SpanResult.process")]:
    c = contract(_f, _q, [], coarse=True)
    c.param("self", OBJ(_q.split(".")[0], inv=False)).param("ctx", VAL)
    c.result = VAL
    c.logged = "ActionResult.process"
    c.modifies = lambda S_: [("all",)]
    c.sig("BaseException", "any-failure")
