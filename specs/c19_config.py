"""C19 configuration resolution / app-frame classification."""
from .common import *
from pyvc.core import LogEntry

CS = "config/config_service.py"
CFG = "config/__init__.py"

OwnHas = z3.Function("OwnHas", Val, S, B)
OwnVal = z3.Function("OwnVal", Val, S, Val)
ModHas = z3.Function("ModHas_deep_config", S, B)
ModVal = z3.Function("ModVal_deep_config", S, Val)
EnvHas = z3.Function("EnvHas", S, B)
EnvVal = z3.Function("EnvVal", S, S)


@class_invariant("ConfigService")
def inv_config(S_, c):
    h = S_.new
    cu = h.f(c, "ConfigService.__custom")
    return And(Or(Val.is_VNone(cu), S_.pre(cu, "dict")), S_.pre(h.f(c, "_tracepoint_config"), "TracepointConfigService"),
               S_.pre(h.f(c, "_plugins"), "list"), h.llen(h.f(c, "_plugins")) >= 0, S_.elems(h.f(c, "_plugins"), HOSTOBJ))


# ---------------------------------------------------------------- ConfigService.__getattribute__
c = contract(CS, "ConfigService.__getattribute__", ["C19"])
c.param("self", OBJ("ConfigService")).param("name", STR)
c.result = VAL
c.init_ghost = lambda S_: S_.I.st.ghost.setdefault("host_data_dicts", []).append(S_.new.f(S_.a.self, "ConfigService.__custom"))
c.logged = "config_get"
c.host_ops_exc_base = "Exception"
c.modifies = lambda S_: []
# a configured callable runs user code
c.sig("Exception", "configured-callable-failed")
c.ens("value-is-host-or-own", lambda S_: S_.I.assume_shape(S_.result, ANY) or z3.BoolVal(True) if S_.at_call and not _is_own(S_) else z3.BoolVal(True))


def _is_own(S_):
    return False


def _resolution(S_):
    """own attribute > value given in code (custom, not None) > deep.config default > DEEP_<KEY> environment
    variable > absent (None); callables among the non-own values are called."""
    h = S_.old
    me, nm = S_.a.self, sv(S_.a.name)
    cu = h.f(me, "ConfigService.__custom")
    r = S_.result
    own = OwnHas(me, nm)
    cust = And(Val.is_VRef(cu), h.dhas(cu, S_.a.name), Not(Val.is_VNone(h.dget(cu, S_.a.name))))
    cval = h.dget(cu, S_.a.name)
    envk = z3.Concat(z3.StringVal("DEEP_"), nm)
    callable_ = lambda v: S_.I.hostfn("callable", "raises")(v)      # host callables (see lib.b_callable)
    called = lambda v: S_.I.hostfn("call", "res")(v)
    pick = lambda v: If(And(Val.is_VRef(v), callable_(v)), called(v), v)
    return And(
        Implies(own, r == OwnVal(me, nm)),
        Implies(And(Not(own), cust), r == pick(cval)),
        Implies(And(Not(own), Not(cust), ModHas(nm)), r == pick(ModVal(nm))),
        Implies(And(Not(own), Not(cust), Not(ModHas(nm)), EnvHas(envk)), r == Val.VStr(EnvVal(envk))),
        Implies(And(Not(own), Not(cust), Not(ModHas(nm)), Not(EnvHas(envk))), Val.is_VNone(r)))


c.ens("precedence-own-code-default-environment", _resolution)


def _typed_result(S_):
    """Contracts may state (as their own precondition) the type a documented setting resolves to."""
    if not S_.at_call:
        return z3.BoolVal(True)
    nm = z3.simplify(sv(S_.a.name))
    types = S_.I.st.ghost.get("config_types", {})
    if z3.is_string_value(nm) and nm.as_string() in types:
        S_.I.assume_shape(S_.result, types[nm.as_string()])
        p = types[nm.as_string()]
        if p.kind == "list" and p.elem is not None:
            S_.elems(S_.result, p.elem)
            S_.I.ctx.assume(S_.new.llen(S_.result) >= 0)
    return z3.BoolVal(True)


c.ens("documented-setting-types", _typed_result)

# ---------------------------------------------------------------- ConfigService.is_app_frame
c = contract(CS, "ConfigService.is_app_frame", ["C19", "C02"])
c.param("self", OBJ("ConfigService")).param("filename", STR)
c.init_ghost = lambda S_: S_.I.st.ghost.setdefault("config_types", {}).update(
    {"IN_APP_INCLUDE": LIST(STR), "IN_APP_EXCLUDE": LIST(STR), "APP_ROOT": STR})
c.notes.append("requires: IN_APP_INCLUDE / IN_APP_EXCLUDE resolve to list[str] and APP_ROOT to str (producers checked below)")
c.result = TUPLE(BOOL, OPT(STR))
c.logged = "is_app_frame"
c.modifies = lambda S_: []
c.sig("Exception", "configured-callable-failed")


def _iaf_lists(S_):
    gets = {z3.simplify(sv(e.args[1])).as_string(): e.result for e in S_.calls("config_get")
            if z3.is_string_value(z3.simplify(sv(e.args[1])))}
    return gets


def _iaf_post(S_, kind):
    """app frame <=> no exclude prefix and (an include prefix or the app root); exclusion wins; the reported
    match is the first matching exclude, else the first matching include, else the app root, else None."""
    if kind != "return":
        return []
    g = _iaf_lists(S_)
    if not {"IN_APP_INCLUDE", "IN_APP_EXCLUDE"} <= set(g):
        return [("settings-consulted", "LOG", z3.BoolVal(False), None)]
    inc, exc = g["IN_APP_INCLUDE"], g["IN_APP_EXCLUDE"]
    n = S_.new
    fn = sv(S_.a.filename)
    flag, match = bv(n.lget(S_.result, 0)), n.lget(S_.result, 1)
    j, k = z3.Int("j!iaf"), z3.Int("k!iaf")
    pre = lambda lst, i: z3.PrefixOf(sv(n.lget(lst, i)), fn)
    some_exc = z3.Exists([j], And(j >= 0, j < n.llen(exc), pre(exc, j)))
    some_inc = z3.Exists([j], And(j >= 0, j < n.llen(inc), pre(inc, j)))
    out = [("exclusion-wins", "POST", Implies(some_exc, Not(flag)), None),
           ("match-is-a-prefix-of-the-file", "POST", Implies(Val.is_VStr(match), z3.PrefixOf(sv(match), fn)), None),
           ("included-and-not-excluded-is-app", "POST", Implies(And(Not(some_exc), some_inc), flag), None)]
    if "APP_ROOT" in g:
        root = g["APP_ROOT"]
        out.append(("under-root-and-not-excluded-is-app", "POST",
                    Implies(And(Not(some_exc), z3.PrefixOf(sv(root), fn)), flag), None))
        out.append(("otherwise-not-app", "POST",
                    Implies(And(Not(some_exc), Not(some_inc), Not(z3.PrefixOf(sv(root), fn))),
                            And(Not(flag), Val.is_VNone(match))), None))
    else:
        out.append(("app-only-by-include-or-root", "POST", Implies(flag, Or(some_inc, z3.BoolVal(False))), None))
    return out


c.exit_check(_iaf_post)


def _no_prefix_so_far(which):
    def inv(L):
        h = L.now()
        fn = sv(L.local("filename"))
        j = z3.Int("j!iafinv")
        lst = L.seq.source
        return z3.ForAll([j], Implies(And(j >= 0, j < L.index), Not(z3.PrefixOf(sv(h.lget(lst, j)), fn))))
    return inv


c.loop("iter:in_app_exclude", invariant=_no_prefix_so_far("exclude"), modifies_kind="none")
c.loop("iter:in_app_include", invariant=_no_prefix_so_far("include"), modifies_kind="none")


# ---------------------------------------------------------------- deep.config.IN_APP_INCLUDE / IN_APP_EXCLUDE
def _flat_text_list(S_):
    """'environment values are text': the setting is a flat list of path prefixes (str) whichever way it is given."""
    r = S_.result
    j = z3.Int("j!flat")
    n = S_.I.ctx.value_of(S_.new.llen(r)) if not S_.at_call else None
    if n is not None and n <= 8:
        # concrete length on this path: state the clause element by element (gives a decisive counter-model)
        return And(Val.is_VRef(r), S_.new.typeof(r) == S_.cid("list"), *[Val.is_VStr(S_.new.lget(r, i)) for i in range(n)])
    return And(Val.is_VRef(r), S_.new.typeof(r) == S_.cid("list"),
               z3.ForAll([j], Implies(And(j >= 0, j < S_.new.llen(r)), Val.is_VStr(S_.new.lget(r, j)))))


for _fn in ("IN_APP_INCLUDE",):
    c = contract(CFG, _fn, ["C19"])
    c.result = VAL
    c.modifies = lambda S_: []
    c.ens("flat-list-of-text-prefixes", _flat_text_list)

c = contract(CFG, "IN_APP_EXCLUDE", ["C19"])
c.result = VAL
c.modifies = lambda S_: []
c.ens("flat-list-of-text-prefixes", _flat_text_list)
c.ens("interpreter-prefix-always-excluded", lambda S_: And(
    S_.new.llen(S_.result) >= 1,
    S_.new.lget(S_.result, S_.new.llen(S_.result) - 1) == Val.VStr(z3.String("sys_exec_prefix"))))


# ---------------------------------------------------------------- utils.RepeatedTimer / LongPoll.start
UT = "utils.py"
PL = "poll/poll.py"
c = contract(UT, "RepeatedTimer.__init__", ["C19", "C12"], coarse=True)
c.param("self", OBJ("RepeatedTimer", inv=False)).param("name", VAL).param("interval", VAL).param("function", VAL)
c.param("args", VAL).param("kwargs", VAL)
# the interval is used arithmetically by the timer thread (interval - elapsed % interval)
c.req("interval-is-a-number", lambda S_: Or(Val.is_VInt(S_.a.interval), Val.is_VFloat(S_.a.interval)))
c.result = NONE
c.logged = "RepeatedTimer"
c.modifies = lambda S_: [("field", S_.a.self, f) for f in ("name", "interval", "function", "args", "kwargs", "start_ts",
                                                            "event", "thread")]
c.ens("keeps-interval-and-function", lambda S_: And(S_.f(S_.a.self, "interval") == S_.a.interval,
                                                    S_.f(S_.a.self, "function") == S_.a.function))
c.props = []


@class_invariant("LongPoll")
def inv_longpoll(S_, p):
    h = S_.new
    t = h.f(p, "timer")
    return And(S_.pre(h.f(p, "config"), "ConfigService"), Val.is_VRef(h.f(p, "grpc")),
               Or(Val.is_VNone(t), And(S_.pre(t, "RepeatedTimer"), inv_timer(S_, t))))


@class_invariant("RepeatedTimer")
def inv_timer(S_, t):
    h = S_.new
    return And(S_.pre(h.f(t, "thread"), "Thread"), S_.pre(h.f(t, "event"), "Event"))


c = contract(PL, "LongPoll.__initial_poll", [], coarse=True)
c.param("self", OBJ("LongPoll"))
c.result = NONE
c.logged = "__initial_poll"
c.modifies = lambda S_: [("all",)]

c = contract(PL, "LongPoll.start", ["C19", "C14"])
c.param("self", OBJ("LongPoll"))
c.logged = "LongPoll.start"
c.result = NONE
c.host_ops_exc_base = "Exception"
c.modifies = lambda S_: [("all",)]
# a POLL_TIMER that is not a number at all (e.g. 'abc') is refused visibly at start
c.sig("Exception", "poll-timer-setting-is-not-a-number-or-configured-callable-failed")


def _start_log(S_, kind):
    """'a failed ... poll leaves the last good configuration in force and polling continues': whatever the first poll does,
    the repeating timer has been created for this poller's poll and started when start returns"""
    if kind != "return":
        return []
    timers = S_.calls("RepeatedTimer")
    starts = S_.calls("Thread.start")
    t = S_.f(S_.a.self, "timer")
    return [("timer-created-and-started-whatever-the-first-poll-did", "LOG", And(
        z3.BoolVal(len(timers) == 1 and len(starts) == 1), t == timers[0].args[0] if timers else z3.BoolVal(False),
        starts[0].args[0] == S_.f(t, "thread") if starts else z3.BoolVal(False)), ["C12", "C14"])]


c.exit_check(_start_log)
c.props = ["C19", "C14", "C12"]
c.protects = lambda S_: {"fields": ["timer", "config", "grpc"], "lists": [], "dicts": []}


# ---------------------------------------------------------------- GRPCService.start
GS = "grpc/grpc_service.py"


@class_invariant("GRPCService")
def inv_grpc(S_, g):
    return z3.BoolVal(True)


@extern("grpc.secure_channel", "opens a channel object (no I/O at creation)")
def _secure_channel(it, args, kwargs, node, anchor):
    it.st.log.append(LogEntry("grpc.secure_channel", list(args), kwargs, None, anchor))
    return VRef(it.st.alloc(it.table.id("object")))


@extern("grpc.insecure_channel", "opens a channel object (no I/O at creation)")
def _insecure_channel(it, args, kwargs, node, anchor):
    it.st.log.append(LogEntry("grpc.insecure_channel", list(args), kwargs, None, anchor))
    return VRef(it.st.alloc(it.table.id("object")))


@extern("grpc.ssl_channel_credentials", "credentials object")
def _ssl_creds(it, args, kwargs, node, anchor):
    return VRef(it.st.alloc(it.table.id("object")))


c = contract(GS, "GRPCService.start", ["C19"])
c.param("self", OBJ("GRPCService"))
# SERVICE_SECURE may be given in code (bool or text) or through DEEP_SERVICE_SECURE (text)
c.req("secure-flag-is-bool-or-text", lambda S_: Or(Val.is_VBool(S_.old.f(S_.a.self, "_secure")),
                                                   Val.is_VStr(S_.old.f(S_.a.self, "_secure"))))
c.result = NONE
c.logged = "GRPCService.start"
c.modifies = lambda S_: [("field", S_.a.self, "channel")]


def _secure_same(S_, kind):
    """'behaves identically whether given in code or as its environment variable': the flag means the same as
    text and as a boolean."""
    if kind != "return":
        return []
    from .c10_conditions import Lower_in_truthy
    sec = S_.old.f(S_.a.self, "_secure")
    secure = bool(S_.calls("grpc.secure_channel"))
    want = If(Val.is_VBool(sec), bv(sec), Lower_in_truthy(sv(sec)))
    return [("secure-iff-flag-is-truthy", "POST", want if secure else Not(want), None)]


c.exit_check(_secure_same)
