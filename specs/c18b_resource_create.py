"""C18 (second part): Resource.create combines the built-in, environment and code-provided resources in that order and
guarantees a service name."""
from .common import *
from pyvc.core import LogEntry
from pyvc.contract import extern, global_fact

RS = "api/resource/__init__.py"

@global_fact("deep.api.resource", "_DEFAULT_RESOURCE")
def _default_resource(S_, r):
    """module initialisation (trusted): the built-in resource carries the three SDK identity keys"""
    d = S_.new.f(S_.new.f(r, "_attributes"), "_dict")
    return And(*[And(S_.new.dhas(d, VStr(k)), Val.is_VStr(S_.new.dget(d, VStr(k))))
                 for k in ("telemetry.sdk.language", "telemetry.sdk.name", "telemetry.sdk.version")])


@global_fact("deep.api.resource", "_EMPTY_RESOURCE")
def _empty_resource(S_, r):
    return S_.new.dlen(S_.new.f(S_.new.f(r, "_attributes"), "_dict")) == 0


c = contract(RS, "Resource.create", ["C18"])
c.param("attributes", OPT(DICT())).param("schema_url", OPT(STR))
c.result = VAL
c.logged = "Resource.create"
c.host_ops_exc_base = "Exception"
c.modifies = lambda S_: [("all",)]
c.sig("Exception", "attribute-values-misbehave")
c.ens("result-is-a-resource", lambda S_: And(S_.isinst(S_.result, "Resource"), Val.r(S_.result) > 0,
                                             Val.r(S_.result) < S_.I.st.next_id))


def _create_log(S_, kind):
    """built-in identity first, then what the environment provides, then what the code provides - each merged over the
    previous (later sources win key by key: contract of merge); a missing or empty service name is filled in last"""
    if kind != "return":
        return []
    merges = S_.calls("Resource.merge")
    inits = S_.calls("Resource.__init__")
    det = S_.calls("DeepResourceDetector.detect")
    out = []
    ok = len(merges) >= 2 and len(det) == 1 and len(inits) >= 1
    if not ok:
        return [("builtin-then-environment-then-code", "LOG", z3.BoolVal(False), None)]
    m1, m2 = merges[0], merges[1]
    code_res = inits[0]
    out.append(("builtin-then-environment-then-code", "LOG", And(
        m1.args[0] == S_.I.lookup_global(S_.I.index.modules["deep.api.resource"], "_DEFAULT_RESOURCE"),
        m1.args[1] == det[0].result, m2.args[0] == m1.result, m2.args[1] == code_res.args[0],
        code_res.args[2] == S_.a.schema_url,
        Implies(Not(Or(Val.is_VNone(S_.a.attributes), S_.old.dlen(S_.a.attributes) == 0)), code_res.args[1] == S_.a.attributes)), None))
    if len(merges) == 2:
        out.append(("result-is-the-combined-resource", "POST", S_.result == m2.result, None))
    else:
        m3 = merges[2]
        out.append(("service-name-filled-in-last", "LOG", And(
            z3.BoolVal(len(merges) == 3 and len(inits) == 2), m3.args[0] == m2.result,
            m3.args[1] == inits[1].args[0] if len(inits) > 1 else z3.BoolVal(False), S_.result == m3.result), None))
    return out


c.exit_check(_create_log)


# ---------------------------------------------------------------- DeepResourceDetector.detect
@extern("urllib.parse.unquote", "percent-decoding of a text: some text")
def _unquote(it, args, kwargs, node, anchor):
    if it.tag(args[0], "unquote-arg") != "str":
        it.raise_("TypeError", anchor)
    return Val.VStr(z3.Function("Unquoted", S, S)(sv(args[0])))


c = contract(RS, "DeepResourceDetector.detect", ["C18"])
c.param("self", OBJ("DeepResourceDetector", inv=False))
c.result = VAL
c.logged = "DeepResourceDetector.detect"
c.host_ops_exc_base = "Exception"
c.modifies = lambda S_: [("all",)]
c.sig("Exception", "attribute-values-misbehave")


def _detect_log(S_, kind):
    """one resource built from the environment: DEEP_RESOURCE_ATTRIBUTES pairs, and DEEP_SERVICE_NAME (when set) as the
    service name - set last, so that it wins over a service.name among the pairs"""
    if kind != "return":
        return []
    inits = S_.calls("Resource.__init__")
    if len(inits) != 1:
        return [("one-resource-from-the-environment", "LOG", z3.BoolVal(False), None)]
    from specs.c19_config import EnvHas, EnvVal
    hm = __import__("pyvc.contract", fromlist=["Heap"]).Heap(None, inits[0].pre)
    m = inits[0].args[1]
    name_key = z3.StringVal("DEEP_SERVICE_NAME")
    given = And(EnvHas(name_key), z3.Length(EnvVal(name_key)) > 0)
    return [("one-resource-from-the-environment", "LOG", S_.result == inits[0].args[0], None),
            ("service-name-variable-wins", "POST", Implies(given, And(
                hm.dhas(m, VStr("service.name")), hm.dget(m, VStr("service.name")) == Val.VStr(EnvVal(name_key)))), None)]


c.exit_check(_detect_log)
