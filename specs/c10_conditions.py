"""C10 Conditions and expressions: gate firing, frame scope, errors contained (+ C04 record-on-exit)."""
from .common import *
from pyvc.core import ALLOC_BASE

AC = "processor/context/action_context.py"
TC = "processor/context/trigger_context.py"
UT = "utils.py"
ACTION_CTXS = ["SnapshotActionContext", "LogActionContext", "MetricActionContext", "SpanActionContext",
               "NoActionContext"]


@class_invariant("TriggerContext")
def inv_trigger_context(S_, t):
    h = S_.new
    return And(
        S_.pre(h.f(t, "TriggerContext.__frame"), "frame"),
        S_.pre(h.f(t, "TriggerContext.__config"), "ConfigService"),
        Val.is_VInt(h.f(t, "TriggerContext.__ts")), iv(h.f(t, "TriggerContext.__ts")) > 0,
        Val.is_VStr(h.f(t, "TriggerContext.__id")),
        Val.is_VStr(h.f(t, "TriggerContext.__event")),
        S_.pre(h.f(t, "TriggerContext.__results"), "list"), h.llen(h.f(t, "TriggerContext.__results")) >= 0,
        S_.pre(h.f(t, "callbacks"), "list"), h.llen(h.f(t, "callbacks")) >= 0,
        S_.pre(h.f(t, "vars"), "dict"),
        S_.pre(h.f(t, "var_cache"), "VariableCacheProvider"),
        S_.pre(h.f(h.f(t, "var_cache"), "VariableCacheProvider.__cache"), "dict"),
        h.f(h.f(t, "var_cache"), "VariableCacheProvider.__cache") != h.f(t, "vars"),
    )


def inv_action_context(S_, a):
    h = S_.new
    return And(
        S_.pre(h.f(a, "trigger_context"), "TriggerContext"), inv_trigger_context(S_, h.f(a, "trigger_context")),
        S_.pre(h.f(a, "location_action"), "LocationAction"),
        CLASS_INV("LocationAction")(S_, h.f(a, "location_action")),
        Val.is_VBool(h.f(a, "_triggered")),
        S_.pre(h.f(a, "var_cache"), "VariableCacheProvider"),
        S_.pre(h.f(h.f(a, "var_cache"), "VariableCacheProvider.__cache"), "dict"),
    )


def CLASS_INV(name):
    from pyvc.contract import CLASS_INVARIANTS
    return CLASS_INVARIANTS[name]


for _n in ["ActionContext"] + ACTION_CTXS:
    class_invariant(_n)(inv_action_context)


def Lower_in_truthy(s):
    l = Lower(s)
    return Or(*[l == z3.StringVal(x) for x in ("yes", "true", "t", "1", "y")])


# ---------------------------------------------------------------- utils.str2bool
c = contract(UT, "str2bool", ["C10", "C19"])
c.param("string", ANY)
c.req("arg-is-text", lambda S_: Val.is_VStr(S_.a.string))
c.result = BOOL
c.ens("truthy-table", lambda S_: bv(S_.result) == Lower_in_truthy(sv(S_.a.string)))
c.modifies = lambda S_: []

# ---------------------------------------------------------------- TriggerContext.evaluate_expression
c = contract(TC, "TriggerContext.evaluate_expression", ["C10", "C01", "C06"])
c.param("self", OBJ("TriggerContext")).param("expression", ANY)
c.result = ANY
c.logged = "evaluate_expression"
c.modifies = lambda S_: []
# signals {}: a failing expression yields the exception object as the value


def _eval_scopes(S_, kind):
    out = []
    evs = S_.calls("eval")
    frame = S_.old.f(S_.a.self, "TriggerContext.__frame")
    out.append(("eval-once", "LOG", z3.BoolVal(len(evs) == 1), ["C10"]))
    for e in evs[:1]:
        out.append(("call:eval/expression", "PRE", e.args[0] == S_.a.expression, ["C10"]))
        out.append(("call:eval/globals-are-frame-globals", "PRE", e.args[1] == S_.old.f(frame, "f_globals"), ["C10"]))
        out.append(("call:eval/locals-are-frame-locals", "PRE", e.args[2] == S_.old.f(frame, "f_locals"), ["C10"]))
    return out


c.exit_check(_eval_scopes)


def _eval_value(S_):
    h = S_.old
    frame = h.f(S_.a.self, "TriggerContext.__frame")
    g, l = h.f(frame, "f_globals"), h.f(frame, "f_locals")
    raises = z3.Function("Eval_raises", Val, Val, Val, B)(S_.a.expression, g, l)
    value = z3.Function("Eval_res", Val, Val, Val, Val)(S_.a.expression, g, l)
    return Implies(Not(raises), S_.result == value)


c.ens("value-of-the-expression-in-the-frame", _eval_value)

# ---------------------------------------------------------------- ActionContext.can_trigger
c = contract(AC, "ActionContext.can_trigger", ["C10", "C04"])
c.logged = "can_trigger"
c.param("self", OBJ("ActionContext", subclasses=ACTION_CTXS))
c.result = BOOL
c.modifies = lambda S_: []


def _cond_blank(h, cond):
    return Or(Val.is_VNone(cond), z3.Length(Strip(sv(cond))) == 0)


def expr_value_facts(S_, expr):
    """(raises, value) of evaluating `expr` in this context's frame: the trusted eval() model is a function of
    (expression, frame globals, frame locals)."""
    h = S_.old
    tctx = h.f(S_.a.self, "trigger_context")
    frame = h.f(tctx, "TriggerContext.__frame")
    g, l = h.f(frame, "f_globals"), h.f(frame, "f_locals")
    raises = z3.Function("Eval_raises", Val, Val, Val, B)(expr, g, l)
    value = z3.Function("Eval_res", Val, Val, Val, Val)(expr, g, l)
    return raises, value


def _can_trigger_post(S_):
    """result == limits and (blank condition or truthy(str(value of the condition)));
    a condition whose evaluation fails yields its exception object, whose text is not one of the truthy words
    only by accident - the statement's 'failing to evaluate' case is decided by the same table."""
    h = S_.old
    act = h.f(S_.a.self, "location_action")
    ts = iv(h.f(h.f(S_.a.self, "trigger_context"), "TriggerContext.__ts"))
    cond = h.f(act, "LocationAction.__condition")
    limits = spec_limits_ok(h, act, ts)
    raises, value = expr_value_facts(S_, cond)
    r = bv(S_.result)
    return And(Implies(Not(limits), Not(r)),
               Implies(And(limits, _cond_blank(h, cond)), r),
               Implies(And(limits, Not(_cond_blank(h, cond)), Not(raises)), r == Lower_in_truthy(StrOf(value))))


c.ens("limits-then-condition", _can_trigger_post)


def _can_trigger_log(S_, kind):
    """Limits first: no expression is evaluated when the limits fail or the condition is blank; otherwise
    exactly the tracepoint's own condition is evaluated, once."""
    h = S_.old
    act = h.f(S_.a.self, "location_action")
    ts = iv(h.f(h.f(S_.a.self, "trigger_context"), "TriggerContext.__ts"))
    cond = h.f(act, "LocationAction.__condition")
    limits = spec_limits_ok(h, act, ts)
    evs = S_.calls("evaluate_expression")
    if not evs:
        g = Or(Not(limits), _cond_blank(h, cond))
    else:
        g = And(len(evs) == 1, limits, Not(_cond_blank(h, cond)), evs[0].args[1] == cond)
    return [("condition-evaluated-only-when-limits-allow", "LOG", g, ["C10"])]


c.exit_check(_can_trigger_log)


def _str_raises_post(S_):
    """A failure can only come from rendering the condition's value (host __str__), hence only on hits whose
    limits allow and whose condition is not blank."""
    h = S_.old
    act = h.f(S_.a.self, "location_action")
    ts = iv(h.f(h.f(S_.a.self, "trigger_context"), "TriggerContext.__ts"))
    cond = h.f(act, "LocationAction.__condition")
    return And(spec_limits_ok(h, act, ts), Not(_cond_blank(h, cond)))


# the only failure: str() of the condition's value runs host code that raises -> the hit is rejected
c.sig("BaseException", "condition-value-str-raises", post=_str_raises_post)

# ---------------------------------------------------------------- ActionContext.has_triggered / process / __exit__
c = contract(AC, "ActionContext.process", ["C10", "C04"])
c.logged = "process"
c.param("self", OBJ("ActionContext", subclasses=ACTION_CTXS))
c.result = ANY
c.modifies = lambda S_: [("all",)]
c.ens("marks-triggered", lambda S_: S_.f(S_.a.self, "_triggered") == VTrue)
c.sig("BaseException", "action-failed-still-triggered", post=lambda S_: S_.f(S_.a.self, "_triggered") == VTrue)

c = contract(AC, "ActionContext.__enter__", ["C10"])
c.param("self", OBJ("ActionContext", subclasses=ACTION_CTXS))
c.result = lambda S_: S_.a.self
c.ens("returns-self", lambda S_: S_.result == S_.a.self)
c.modifies = lambda S_: []

c = contract(AC, "ActionContext.__exit__", ["C10", "C04"])
c.logged = "ActionContext.__exit__"
c.param("self", OBJ("ActionContext", subclasses=ACTION_CTXS))
c.param("exception_type", ANY).param("exception_value", ANY).param("exception_traceback", ANY)
c.result = NONE


def _exit_stats(S_):
    h = S_.old
    return h.f(h.f(S_.a.self, "location_action"), "LocationAction.__stats")


def _exit_post(S_):
    h = S_.old
    stats = _exit_stats(S_)
    ts = h.f(h.f(S_.a.self, "trigger_context"), "TriggerContext.__ts")
    trig = bv(h.f(S_.a.self, "_triggered"))
    return And(
        Implies(trig, And(S_.f(stats, "_fire_count") == VInt(iv(h.f(stats, "_fire_count")) + 1),
                          S_.f(stats, "_last_fire") == ts)),
        Implies(Not(trig), And(S_.f(stats, "_fire_count") == h.f(stats, "_fire_count"),
                               S_.f(stats, "_last_fire") == h.f(stats, "_last_fire"))))


c.ens("records-iff-processed", _exit_post)
c.ens("does-not-suppress", lambda S_: Val.is_VNone(S_.result))
c.modifies = lambda S_: [("field", _exit_stats(S_), "_fire_count"), ("field", _exit_stats(S_), "_last_fire")]
