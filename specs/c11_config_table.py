"""C11 Tracepoint configuration is interpreted as documented (+ C04 defaults / window clause)."""
from .common import *

ARG_KEYS = ["stage", "method_name", "span", "snapshot", "log_msg", "condition", "fire_count", "fire_period",
            "frame_type", "stack_type", "window_start", "window_end", "watches"]
LINE_STAGES = ["line_capture", "line_start", "line_end"]
METHOD_STAGES = ["method_start", "method_capture", "method_end"]


def args_are_text(h, args):
    """Tracepoint args are Dict[str, str] (protobuf map<string,string> / documented API)."""
    return And(*[Implies(h.dhas(args, k), Val.is_VStr(h.dget(args, k))) for k in ARG_KEYS])


def dict_is(h, d, pairs, assumed=False):
    """The dict d has exactly the given (key, value) pairs.  As a proof goal the domain is compared as a
    whole; where the contract is *assumed* (call sites) the cheaper consequence is used: the listed keys
    are present with their values, the documented argument keys not listed are absent, and the size."""
    cs = [h.dget(d, k) == v for k, v in pairs]
    if assumed:
        names = [k for k, _ in pairs]
        return And(h.dlen(d) == len(pairs), *(cs + [h.dhas(d, k) for k in names] +
                                             [Not(h.dhas(d, k)) for k in ARG_KEYS if k not in names]))
    has = z3.K(Val, z3.BoolVal(False))
    for k, v in pairs:
        has = z3.Store(has, VStr(k), z3.BoolVal(True))
    return And(h.dhas_arr(d) == has, h.dlen(d) == len(pairs), *cs)


def fresh_action(S_, a, tp_id, cond, kind, cfg_pairs, args):
    """a is a newly built LocationAction with the given identity, condition, type and exact config."""
    h = S_.new
    cfg = h.f(a, "LocationAction.__config")
    stats = h.f(a, "LocationAction.__stats")
    win = h.f(a, "LocationAction.__window")
    return And(
        h.f(a, "LocationAction.__id") == tp_id,
        h.f(a, "LocationAction.__condition") == cond,
        h.f(a, "LocationAction.__action_type") == S_.enum("LocationAction.ActionType", kind),
        Val.is_VNone(h.f(a, "LocationAction.__location")),
        S_.is_fresh(cfg, "dict"), dict_is(h, cfg, cfg_pairs, assumed=S_.at_call),
        S_.is_fresh(stats, "TracepointExecutionStats"),
        h.f(stats, "_fire_count") == VInt(0), h.f(stats, "_last_fire") == VInt(0),
        S_.is_fresh(win, "TracepointWindow"),
    )


def window_carried(S_, a, args):
    """C04: a configured time window reaches the action (so that it can be enforced)."""
    h = S_.new
    cfg = h.f(a, "LocationAction.__config")
    ho = S_.old
    return And(
        Implies(ho.dhas(args, "window_start"), And(h.dhas(cfg, "window_start"),
                                                   h.dget(cfg, "window_start") == ho.dget(args, "window_start"))),
        Implies(ho.dhas(args, "window_end"), And(h.dhas(cfg, "window_end"),
                                                 h.dget(cfg, "window_end") == ho.dget(args, "window_end"))))


def cond_of(h, args):
    return h.dget_or(args, "condition", VNone)


def common_builder(c):
    c.param("tp_id", STR).param("args", DICT())
    c.req("args-are-text", lambda S_: args_are_text(S_.old, S_.a.args))
    c.result = FRESH("LocationAction", nullable=True)
    c.modifies = lambda S_: []


# ---------------------------------------------------------------- build_snapshot_action
c = contract(TRIGGER, "build_snapshot_action", ["C11", "C04"])
common_builder(c)
c.param("watches", LIST())
c.logged = "build_snapshot_action"


def _snap_none(h, args):
    return And(h.dhas(args, "snapshot"), h.dget(args, "snapshot") == VStr("no_collect"))


def _snap_post(S_):
    h, a = S_.old, S_.a.args
    r = S_.result
    return If(_snap_none(h, a), Val.is_VNone(r), And(
        S_.is_fresh(r, "LocationAction"),
        fresh_action(S_, r, S_.a.tp_id, cond_of(h, a), "Snapshot", [
            ("watches", S_.a.watches),
            ("frame_type", h.dget_or(a, "frame_type", VStr("single_frame"))),
            ("stack_type", h.dget_or(a, "stack_type", VStr("stack"))),
            ("fire_count", h.dget_or(a, "fire_count", VStr("1"))),
            ("fire_period", h.dget_or(a, "fire_period", VStr("1000"))),
            ("log_msg", h.dget_or(a, "log_msg", VNone))], a)))


c.ens("snapshot-unless-no-collect", _snap_post, props=["C11", "C04"])
c.ens("window-carried", lambda S_: Implies(Not(Val.is_VNone(S_.result)), window_carried(S_, S_.result, S_.a.args)),
      props=["C04"])

# ---------------------------------------------------------------- build_log_action
c = contract(TRIGGER, "build_log_action", ["C11", "C04"])
common_builder(c)
c.logged = "build_log_action"


def _log_post(S_):
    h, a = S_.old, S_.a.args
    r = S_.result
    wanted = And(h.dhas(a, "log_msg"), h.dhas(a, "snapshot"), h.dget(a, "snapshot") == VStr("no_collect"))
    return If(Not(wanted), Val.is_VNone(r), And(
        S_.is_fresh(r, "LocationAction"),
        fresh_action(S_, r, S_.a.tp_id, cond_of(h, a), "Log", [
            ("log_msg", h.dget(a, "log_msg")),
            ("fire_count", h.dget_or(a, "fire_count", VStr("1"))),
            ("fire_period", h.dget_or(a, "fire_period", VStr("1000")))], a)))


c.ens("log-iff-message-and-no-collect", _log_post, props=["C11", "C04"])
c.ens("window-carried", lambda S_: Implies(Not(Val.is_VNone(S_.result)), window_carried(S_, S_.result, S_.a.args)),
      props=["C04"])

# ---------------------------------------------------------------- build_metric_action
c = contract(TRIGGER, "build_metric_action", ["C11", "C04"])
common_builder(c)
c.param("metrics", OPT(LIST()))
c.logged = "build_metric_action"


def _metric_post(S_):
    h, a, m = S_.old, S_.a.args, S_.a.metrics
    r = S_.result
    empty = Or(Val.is_VNone(m), h.llen(m) == 0)
    return If(empty, Val.is_VNone(r), And(
        S_.is_fresh(r, "LocationAction"),
        fresh_action(S_, r, S_.a.tp_id, cond_of(h, a), "Metric", [
            ("metrics", m),
            ("fire_count", h.dget_or(a, "fire_count", VStr("1"))),
            ("fire_period", h.dget_or(a, "fire_period", VStr("1000")))], a)))


c.ens("metric-iff-definitions", _metric_post, props=["C11", "C04"])
c.ens("window-carried", lambda S_: Implies(Not(Val.is_VNone(S_.result)), window_carried(S_, S_.result, S_.a.args)),
      props=["C04"])

# ---------------------------------------------------------------- build_span_action
c = contract(TRIGGER, "build_span_action", ["C11", "C04"])
common_builder(c)
c.logged = "build_span_action"


def _span_post(S_):
    h, a = S_.old, S_.a.args
    r = S_.result
    return If(Not(h.dhas(a, "span")), Val.is_VNone(r), And(
        S_.is_fresh(r, "LocationAction"),
        fresh_action(S_, r, S_.a.tp_id, cond_of(h, a), "Span", [
            ("span", h.dget(a, "span")),
            ("fire_count", h.dget_or(a, "fire_count", VStr("1"))),
            ("fire_period", h.dget_or(a, "fire_period", VStr("1000")))], a)))


c.ens("span-iff-requested", _span_post, props=["C11", "C04"])
c.ens("window-carried", lambda S_: Implies(Not(Val.is_VNone(S_.result)), window_carried(S_, S_.result, S_.a.args)),
      props=["C04"])

# ---------------------------------------------------------------- Location.Position.from_stage
c = contract(TRIGGER, "Location.Position.from_stage", ["C11"])
c.param("cls", VAL).param("stage_", VAL)
c.result = VAL


def _position_of(S_, stage):
    E = lambda m: S_.enum("Location.Position", m)
    return If(Or(stage == VStr("line_end"), stage == VStr("method_end")), E("END"),
              If(Or(stage == VStr("line_capture"), stage == VStr("method_capture")), E("CAPTURE"), E("START")))


c.req("stage-is-text", lambda S_: Val.is_VStr(S_.a.stage_))
c.ens("position-table", lambda S_: S_.result == _position_of(S_, S_.a.stage_))
c.modifies = lambda S_: []

# ---------------------------------------------------------------- build_trigger
c = contract(TRIGGER, "build_trigger", ["C11"])
c.param("tp_id", STR).param("path", STR).param("line_no", INT).param("args", DICT())
c.param("watches", LIST()).param("metrics", OPT(LIST()))
c.req("args-are-text", lambda S_: args_are_text(S_.old, S_.a.args))
c.result = FRESH("Trigger", nullable=True)
c.modifies = lambda S_: []
c.logged = "build_trigger"


def spec_stage(h, a):
    return If(h.dhas(a, "stage"), h.dget(a, "stage"),
              If(And(h.dhas(a, "span"), h.dget(a, "span") == VStr("method")), VStr("method_start"),
                 If(h.dhas(a, "method_name"), VStr("method_start"), VStr("line_start"))))


def stage_in(stage, names):
    return Or(*[stage == VStr(n) for n in names])


def _trigger_location_post(S_):
    h, a = S_.old, S_.a.args
    st = spec_stage(h, a)
    r = S_.result
    n = S_.new
    loc = n.f(r, "Trigger.__location")
    is_line, is_method = stage_in(st, LINE_STAGES), stage_in(st, METHOD_STAGES)
    return If(Not(Or(is_line, is_method)), Val.is_VNone(r), And(
        S_.is_fresh(r, "Trigger"),
        Implies(is_line, And(S_.is_fresh(loc, "LineLocation"),
                             n.f(loc, "LineLocation.__path") == S_.a.path,
                             n.f(loc, "LineLocation.__line") == S_.a.line_no,
                             n.f(loc, "position") == _position_of(S_, st))),
        Implies(is_method, And(S_.is_fresh(loc, "FunctionLocation"),
                               n.f(loc, "FunctionLocation.__path") == S_.a.path,
                               n.f(loc, "FunctionLocation.__function_name") == h.dget_or(a, "method_name", VNone),
                               n.f(loc, "position") == _position_of(S_, st)))))


c.ens("location-kind-and-position", _trigger_location_post)


def _trigger_actions_post(S_):
    """The trigger's actions are the non-None results of the four builders, in order, each called with the
    tracepoint's own id / args / watches / metrics."""
    r = S_.result
    n = S_.new
    calls = [S_.calls("build_snapshot_action"), S_.calls("build_log_action"), S_.calls("build_metric_action"),
             S_.calls("build_span_action")]
    if any(len(x) != 1 for x in calls):
        # on paths returning None before the builders run nothing is built
        return And(Val.is_VNone(r), *[z3.BoolVal(len(x) == 0) for x in calls])
    snap, log, met, span = [x[0] for x in calls]
    args_ok = And(snap.args[0] == S_.a.tp_id, snap.args[1] == S_.a.args, snap.args[2] == S_.a.watches,
                  log.args[0] == S_.a.tp_id, log.args[1] == S_.a.args,
                  met.args[0] == S_.a.tp_id, met.args[1] == S_.a.args, met.args[2] == S_.a.metrics,
                  span.args[0] == S_.a.tp_id, span.args[1] == S_.a.args)
    acts = n.f(r, "Trigger.__actions")
    results = [snap.result, log.result, met.result, span.result]
    cases = []
    for mask in range(16):
        present = [(mask >> i) & 1 == 1 for i in range(4)]
        patt = And(*[Not(Val.is_VNone(results[i])) if present[i] else Val.is_VNone(results[i]) for i in range(4)])
        chosen = [results[i] for i in range(4) if present[i]]
        cases.append(Implies(patt, And(n.llen(acts) == len(chosen),
                                       *[n.lget(acts, j) == v for j, v in enumerate(chosen)])))
    return Implies(Not(Val.is_VNone(r)), And(args_ok, S_.is_fresh(acts, "list"), *cases))


c.exit_check(lambda S_, kind: [("actions-are-the-builders-results", "LOG", _trigger_actions_post(S_), ["C11"])]
             if kind == "return" else [])
c.ens("actions-is-a-new-list-of-actions", lambda S_: Implies(Not(Val.is_VNone(S_.result)), And(
    S_.is_fresh(S_.new.f(S_.result, "Trigger.__actions"), "list"),
    S_.elems(S_.new.f(S_.result, "Trigger.__actions"), OBJ("LocationAction")))))


# =============================================================================== grpc.convert_response
GR = "grpc/__init__.py"
from pyvc.core import LogEntry


def _proto_tp(it, v):
    """A TracePointConfig protobuf message: typed fields (trusted record)."""
    r = Val.r(v)
    st = it.st
    for f, ok in (("ID", Val.is_VStr), ("path", Val.is_VStr), ("line_number", Val.is_VInt)):
        it.ctx.assume(ok(st.get_field(r, f)))



c = contract(GR, "convert_response", ["C11", "C03"])
c.param("response", LIST(P("obj", cls="proto", inv=False)))
c.result = FRESH("list")
c.logged = "convert_response"
c.modifies = lambda S_: [("all",)]
# a tracepoint that cannot be interpreted affects only itself: nothing escapes for the whole response


def _cr_body(L):
    """one trigger is built per received tracepoint, from that tracepoint's own id / path / line / args / watches;
    an uninterpretable one (None) contributes nothing; a new location is added, a known location gets the new
    actions merged into it (keeps all of its actions)."""
    bt = [e for e in L.iter_log() if e.label == "build_trigger"]
    cm = [e for e in L.iter_log() if e.label == "convert_metrics"]
    r = L.seq.element(L.index)
    h0, h1 = L.at_iteration_start(), L.now()
    table = L.local("all_triggers")
    same = And(h1.dhas_arr(table) == h0.dhas_arr(table), h1.dval_arr(table) == h0.dval_arr(table))
    if not bt and len(cm) == 1 and cm[0].raised:
        # its metric definitions cannot be interpreted (unknown metric type): this tracepoint only is left out
        return [("uninterpretable-tracepoint-contributes-nothing", same)]
    if len(bt) != 1:
        return [("built-once-per-tracepoint", z3.BoolVal(False))]
    b = bt[0]
    return [("built-from-its-own-fields", And(b.args[0] == h0.f(r, "ID"), b.args[1] == h0.f(r, "path"),
                                              b.args[2] == h0.f(r, "line_number"),
                                              z3.BoolVal(len(cm) == 1), cm[0].args[0] == h0.f(r, "metrics") if cm else z3.BoolVal(False),
                                              b.args[5] == cm[0].result if cm and cm[0].result is not None else z3.BoolVal(False))),
            ("uninterpretable-tracepoint-contributes-nothing", Implies(Val.is_VNone(b.result), same)),
            # grouping is by the trigger's own location id (file#line for a line, file#method for a method) - the only key
            # touched by this tracepoint is that id; every other location keeps its trigger
            ("grouped-under-the-triggers-own-location-id", Implies(Not(Val.is_VNone(b.result)), _cr_grouped(L, b.result, table, h0, h1)))]


def _cr_grouped(L, trig, table, h0, h1):
    loc = h1.f(trig, "Trigger.__location")
    is_line = h1.typeof(loc) == L.cid("LineLocation")
    tid = If(is_line,
             Val.VStr(z3.Concat(StrOf(h1.f(loc, "LineLocation.__path")), z3.StringVal("#"), StrOf(h1.f(loc, "LineLocation.__line")))),
             Val.VStr(z3.Concat(StrOf(h1.f(loc, "FunctionLocation.__path")), z3.StringVal("#"),
                                StrOf(h1.f(loc, "FunctionLocation.__function_name")))))
    k = z3.Const("k!crg", Val)
    return And(h1.dhas(table, tid),
               If(h0.dhas(table, tid), h1.dget(table, tid) == h0.dget(table, tid), h1.dget(table, tid) == trig),
               z3.ForAll([k], Implies(k != tid, And(h1.dhas(table, k) == h0.dhas(table, k), h1.dget(table, k) == h0.dget(table, k)))))


def _cr_inv(L):
    """the table being built maps location ids to triggers (declared typing of its values)"""
    table = L.local("all_triggers")
    L.spec.dict_values(table, OBJ("Trigger"))
    return And(Val.is_VRef(table), L.now().typeof(table) == L.cid("dict"), L.now().dlen(table) >= 0)


c.loop("iter:response", invariant=_cr_inv, body_ensures=_cr_body, body_no_raise=True, modifies=lambda L: [("all",)])
