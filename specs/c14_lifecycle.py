"""C14 lifecycle: hooks installed once, restored exactly; shutdown always completes."""
from .common import *
from pyvc.core import LogEntry, BoundMethod
from pyvc.contract import extern

TH = "processor/trigger_handler.py"
DP = "api/deep.py"
PL = "poll/poll.py"
UT = "utils.py"

SYS0 = z3.Const("sys_trace_at_entry", Val)
THR0 = z3.Const("threading_trace_at_entry", Val)


def hooks(st):
    return st.ghost.get("sys_trace", SYS0), st.ghost.get("thread_trace", THR0)


@extern("sys.gettrace", "reads the process-wide trace hook (ghost state)")
def _sys_gettrace(it, args, kwargs, node, anchor):
    it.st.log.append(LogEntry("sys.gettrace", [], {}, hooks(it.st)[0], anchor))
    return hooks(it.st)[0]


@extern("sys.settrace", "sets the trace hook of the calling thread (ghost state)")
def _sys_settrace(it, args, kwargs, node, anchor):
    it.st.ghost["sys_trace"] = args[0]
    it.st.log.append(LogEntry("sys.settrace", [args[0]], {}, None, anchor))
    return VNone


@extern("threading.gettrace", "reads the hook installed for threads started later (ghost state)")
def _thr_gettrace(it, args, kwargs, node, anchor):
    it.st.log.append(LogEntry("threading.gettrace", [], {}, hooks(it.st)[1], anchor))
    return hooks(it.st)[1]


@extern("threading.settrace", "sets the hook for threads started later (ghost state)")
def _thr_settrace(it, args, kwargs, node, anchor):
    it.st.ghost["thread_trace"] = args[0]
    it.st.log.append(LogEntry("threading.settrace", [args[0]], {}, None, anchor))
    return VNone


def is_own_hook(S_, v, me):
    ob = S_.I.pyobj(v)
    return isinstance(ob, BoundMethod) and getattr(getattr(ob.func, "fi", None), "name", None) == "trace_call" \
        and ob.self_term.eq(me)


# ---------------------------------------------------------------- TriggerHandler.start
c = contract(TH, "TriggerHandler.start", ["C14", "C03"])
c.param("self", OBJ("TriggerHandler"))
c.result = NONE
c.host_ops_exc_base = "Exception"
c.logged = "TriggerHandler.start"
c.modifies = lambda S_: [("all",)]
c.sig("Exception", "configured-callable-failed")


def _start_post(S_, kind):
    """tracing disabled by configuration: the process's hooks are untouched; otherwise the hooks that were
    present are saved first and the handler's trace function is installed for this and for future threads."""
    if kind != "return":
        return []
    sets = S_.calls("sys.settrace") + S_.calls("threading.settrace")
    s_now, t_now = hooks(S_.I.st)
    if not sets:
        return [("disabled-leaves-hooks-untouched", "POST", And(s_now == SYS0, t_now == THR0), None)]
    log = S_.log
    first_set = min(log.index(e) for e in sets)
    gets_before = [e for e in log[:first_set] if e.label in ("sys.gettrace", "threading.gettrace")]
    return [("saved-before-installed", "LOG", z3.BoolVal(len(gets_before) == 2 and len(sets) == 2), None),
            ("own-trace-function-installed-for-this-and-future-threads", "POST",
             z3.BoolVal(is_own_hook(S_, s_now, S_.a.self) and is_own_hook(S_, t_now, S_.a.self)), ["C14", "C03"]),
            ("previous-hooks-remembered", "POST", And(S_.f(S_.a.self, "TriggerHandler.__old_sys_trace") == SYS0,
                                                      S_.f(S_.a.self, "TriggerHandler.__old_thread_trace") == THR0), None)]


c.exit_check(_start_post)

# ---------------------------------------------------------------- TriggerHandler.shutdown
c = contract(TH, "TriggerHandler.shutdown", ["C14"])
c.param("self", OBJ("TriggerHandler"))
c.result = NONE
c.logged = "TriggerHandler.shutdown"
c.modifies = lambda S_: [("all",)]


def _flag(S_, value):
    """Representation invariant: if the handler keeps a flag for 'my hook is installed', it agrees with reality."""
    ci = S_.I.index.find_class("TriggerHandler")
    for f in S_.I.index.instance_fields(ci):
        if f.endswith("__tracing") or f.endswith("__installed"):
            S_.I.ctx.assume(S_.new.f(S_.a.self, f) == VBool(value))


def _own_installed_init(S_):
    """Two situations at shutdown: this handler's hook is installed (start ran with tracing enabled), or it is
    not (tracing disabled by configuration / never started): then whatever hooks exist are someone else's."""
    it = S_.I
    if it.ctx.branch(z3.Bool("own_hook_installed"), "own hook installed?"):
        tc = it.getattr_(S_.a.self, "trace_call", None)
        it.st.ghost["sys_trace"] = tc
        it.st.ghost["thread_trace"] = tc
        it.st.ghost["$installed"] = True
        _flag(S_, True)
    else:
        it.st.ghost["$installed"] = False
        _flag(S_, False)
        # never installed: start() saved nothing
        it.ctx.assume(And(Val.is_VNone(S_.new.f(S_.a.self, "TriggerHandler.__old_sys_trace")),
                          Val.is_VNone(S_.new.f(S_.a.self, "TriggerHandler.__old_thread_trace"))))


c.init_ghost = _own_installed_init


def _shutdown_post(S_, kind):
    if kind != "return":
        return []
    s_now, t_now = hooks(S_.I.st)
    if S_.I.st.ghost.get("$installed"):
        return [("puts-back-exactly-the-previous-hooks", "POST",
                 And(s_now == S_.old.f(S_.a.self, "TriggerHandler.__old_sys_trace"),
                     t_now == S_.old.f(S_.a.self, "TriggerHandler.__old_thread_trace")), None)]
    return [("never-installed-leaves-hooks-untouched", "POST", And(s_now == SYS0, t_now == THR0), None)]


c.exit_check(_shutdown_post)


# =============================================================================== Deep.start / Deep.shutdown
@class_invariant("Deep")
def inv_deep(S_, d):
    h = S_.new
    return And(Val.is_VBool(h.f(d, "started")), S_.pre(h.f(d, "config"), "ConfigService"),
               S_.pre(h.f(d, "trigger_handler"), "TriggerHandler"), S_.pre(h.f(d, "task_handler"), "TaskHandler"),
               S_.pre(h.f(d, "poll"), "LongPoll"), S_.pre(h.f(d, "grpc"), "GRPCService"))


def coarse(file, qual, label, params, signals=True, cls_inv=True):
    c = contract(file, qual, [], coarse=True)
    for k, v in params.items():
        c.param(k, v)
    c.result = VAL
    c.logged = label
    c.modifies = lambda S_: [("all",)]
    if signals:
        c.sig("Exception", "may-fail")
    return c


# steps of the lifecycle as seen by Deep.start/shutdown: each may fail (network, plugins, pending deliveries)
coarse("task/__init__.py", "TaskHandler.flush", "flush", {"self": OBJ("TaskHandler", inv=False)})
coarse("api/plugin/__init__.py", "load_plugins", "load_plugins", {"config": VAL, "custom": VAL}, signals=False).result = FRESH("list")
coarse("api/resource/__init__.py", "Resource.merge", "Resource.merge", {"self": VAL, "other": VAL},
       signals=False).result = FRESH("Resource")

c = contract(DP, "Deep.shutdown", ["C14", "C20"])
c.param("self", OBJ("Deep"))
c.init_ghost = lambda S_: __import__("specs.c20_plugins", fromlist=["x"]).install_plugin_callbacks(S_)
c.req("plugins-are-plugin-objects", lambda S_: z3.BoolVal(True))
c.result = NONE
c.host_ops_exc_base = "Exception"
c.modifies = lambda S_: [("all",)]
c.protects = lambda S_: {"fields": ["trigger_handler", "task_handler", "poll", "config", "grpc", "_plugins"],
                         "lists": [S_.old.f(S_.old.f(S_.a.self, "config"), "_plugins")], "dicts": []}
# shutdown always completes: nothing escapes, whatever fails on the way


def _shutdown_all(S_, kind):
    """started: every step ran once - hooks restored, deliveries drained, polling stopped, every plugin shut
    down - and the agent is marked stopped; not started: nothing at all happens."""
    if kind != "return":
        return []
    started = bv(S_.old.f(S_.a.self, "started"))
    labels = ["TriggerHandler.shutdown", "flush", "poll.shutdown"]
    n = [len(S_.calls(l)) for l in labels]
    if sum(n) == 0 and not S_.calls("shutdown"):
        return [("nothing-when-not-started", "LOG", Not(started), None)]
    return [("every-step-runs-exactly-once", "LOG", And(started, z3.BoolVal(n == [1, 1, 1])), None),
            ("marked-stopped", "POST", S_.f(S_.a.self, "started") == VFalse, None)]


c.exit_check(_shutdown_all)


def _plugin_shutdown_body(L):
    cs = [e for e in L.iter_log() if e.label == "shutdown"]
    return [("every-plugin-shut-down-once", And(z3.BoolVal(len(cs) == 1),
             cs[0].args[0] == L.seq.element(L.index) if cs else z3.BoolVal(False)))]


c.loop("iter:self.config.plugins", body_ensures=_plugin_shutdown_body, body_no_raise=True, modifies=lambda L: [("all",)])
