"""C20 (second part): plugin loading, activation, ordering; the ConfigService plugin views; Deep.start; snapshot decoration."""
from .common import *
from pyvc.core import SymCallable, LogEntry, Upper
from .c20_plugins import plugin_method, install_plugin_callbacks, PLUGIN_CALLBACKS
from .c10_conditions import Lower_in_truthy

PG = "api/plugin/__init__.py"
CS = "config/config_service.py"
DP = "api/deep.py"
SA = "processor/context/snapshot_action.py"


# ---------------------------------------------------------------- Plugin.is_active
c = contract(PG, "Plugin.is_active", ["C20"])
c.param("self", OBJ("Plugin", inv=False))
c.req("plugin-has-its-config-and-name", lambda S_: And(
    S_.I.assume_shape(S_.old.f(S_.a.self, "config"), OBJ("ConfigService")) or z3.BoolVal(True),
    Val.is_VStr(S_.old.f(S_.a.self, "_name"))))
c.result = BOOL
c.logged = "is_active"
c.host_ops_exc_base = "Exception"
c.modifies = lambda S_: []
c.sig("Exception", "configured-callable-failed")


def _active_log(S_, kind):
    """active unless the setting PLUGIN_<NAME> says otherwise: absent/None -> active; text (or any value's text form) by the
    truthy table.  The only possible failure is a configured callable failing inside the lookup."""
    gets = S_.calls("config_get")
    if kind == "raise":
        # ... or the text form of a setting that is not a primitive (an object whose __str__ raises)
        return [("only-the-setting-lookup-may-fail", "LOG", Or(
            z3.BoolVal(bool(gets) and gets[-1].raised),
            Val.is_VRef(gets[-1].result) if gets and gets[-1].result is not None else z3.BoolVal(False)), None)]
    if kind != "return":
        return []
    if len(gets) != 1:
        return [("reads-its-own-switch-once", "LOG", z3.BoolVal(False), None)]
    if gets[0].raised or gets[0].result is None:
        # the lookup failed with AttributeError: getattr's default 'True' applies
        return [("active-unless-switched-off", "POST", bv(S_.result), None)]
    val = gets[0].result
    key = Upper(z3.Concat(z3.StringVal("plugin_"), sv(S_.old.f(S_.a.self, "_name"))))
    text = If(Val.is_VStr(val), sv(val), StrOf(val))
    return [("reads-its-own-switch-once", "LOG", gets[0].args[1] == Val.VStr(key), None),
            ("active-unless-switched-off", "POST", bv(S_.result) == If(Val.is_VNone(val), z3.BoolVal(True), Lower_in_truthy(text)), None)]


c.exit_check(_active_log)


def plugin_class(it, sc, args, kwargs, node, anchor):
    """a plugin class: constructing it runs plugin code (may raise any Exception) and gives a plugin object"""
    it.st.log.append(LogEntry("plugin_ctor", [sc] + list(args), dict(kwargs), None, anchor))
    if it.ctx.branch(z3.Bool("plugin_ctor_raises!%d" % len(it.st.log)), "plugin constructor raises"):
        it.st.log[-1].raised = True
        it.raise_symbolic(anchor, "Exception", "plugin-constructor")
    res = it.ctx.fresh("plugin_instance", Val)
    it.assume_shape(res, HOSTOBJ)
    it.st.log[-1].result = res
    return res



# ---------------------------------------------------------------- __plugin_generator (module level: import by name)
c = contract(PG, "__plugin_generator", ["C20"])
c.param("configured", LIST(STR))
c.result = LIST(CALLABLE(plugin_class))        # the classes that could be imported, each a plugin constructor
c.logged = "__plugin_generator"
c.host_ops_exc_base = "Exception"
c.modifies = lambda S_: [("all",)]          # importing runs foreign module code


def _gen_body(L):
    """an entry that cannot be imported yields nothing and does not end the generator; otherwise it yields the named
    attribute of the imported module"""
    ys = L.iter_yields()
    imps = [e for e in L.iter_log() if e.label == "import_module"]
    if not ys:
        return [("nothing-or-the-imported-class", z3.BoolVal(True))]
    return [("nothing-or-the-imported-class", And(z3.BoolVal(len(ys) == 1 and len(imps) == 1 and not imps[0].raised)))]


c.loop("iter:configured", body_ensures=_gen_body, body_no_raise=True, modifies=lambda L: [("all",)])


# ---------------------------------------------------------------- load_plugins
def _is_active_method(it, sc, args, kwargs, node, anchor):
    """Plugin.is_active of some plugin object: True / False (see the contract of Plugin.is_active), or the plugin's own
    override failing"""
    it.st.log.append(LogEntry("is_active", list(args), kwargs, None, anchor))
    if it.ctx.branch(z3.Bool("is_active_raises!%d" % len(it.st.log)), "is_active raises"):
        it.st.log[-1].raised = True
        it.raise_symbolic(anchor, "Exception", "is_active")
    res = Val.VBool(it.ctx.fresh("is_active", B))
    it.st.log[-1].result = res
    return res


def _order_method(it, sc, args, kwargs, node, anchor):
    """Plugin.order of some plugin object: an int or None (the documented interface), or the plugin's override failing"""
    it.st.log.append(LogEntry("order", list(args), kwargs, None, anchor))
    if it.ctx.branch(z3.Bool("order_raises!%d" % len(it.st.log)), "order raises"):
        it.st.log[-1].raised = True
        it.raise_symbolic(anchor, "Exception", "order")
    res = If(it.ctx.fresh("order_none", B), VNone, Val.VInt(it.ctx.fresh("order", I)))
    it.st.log[-1].result = res
    return res


def _install_loader_methods(S_):
    S_.I.st.ghost["host_methods"] = {"is_active": SymCallable("is_active", _is_active_method),
                                     "order": SymCallable("order", _order_method)}


c = contract(PG, "load_plugins", ["C20"])
c.param("config", OBJ("ConfigService")).param("custom", OPT(LIST(STR)))
c.init_ghost = _install_loader_methods
c.result = VAL
c.logged = "load_plugins"
c.host_ops_exc_base = "Exception"
c.modifies = lambda S_: [("all",)]
# ordering asks every loaded plugin for its order: that callback is outside the try blocks
c.sig("Exception", "a-loaded-plugin-fails-to-report-its-order")


def _load_body(L):
    """a class that fails to construct, or a plugin that is switched off, is skipped; otherwise exactly that plugin is added"""
    ctor = [e for e in L.iter_log() if e.label == "plugin_ctor"]
    act = [e for e in L.iter_log() if e.label == "is_active"]
    app = [e for e in L.iter_log() if e.label == "list.append"]
    ok = bool(ctor) and not ctor[0].raised and bool(act) and not act[0].raised
    cs = [("constructed-once-with-the-config", And(z3.BoolVal(len(ctor) == 1),
                                                   ctor[0].kwargs.get("config") == L.local("config") if ctor and "config" in ctor[0].kwargs
                                                   else z3.BoolVal(False)))]
    if app:
        cs.append(("only-an-active-constructed-plugin-is-loaded", And(
            z3.BoolVal(ok and len(app) == 1), app[0].args[1] == ctor[0].result if ok else z3.BoolVal(False),
            act[0].args[0] == ctor[0].result if ok else z3.BoolVal(False),
            bv(act[0].result) if ok else z3.BoolVal(False))))
    elif ok:
        cs.append(("an-active-plugin-is-not-dropped", Not(bv(act[0].result))))
    return cs


def _loaded_inv(L):
    """`loaded` stays a list of plugin objects (element typing declared)"""
    lst = L.local("loaded")
    L.spec.elems(lst, HOSTOBJ)
    return And(Val.is_VRef(lst), L.now().llen(lst) >= 0)


c.loop("iter:__plugin_generator(DEEP_PLUGINS + custom)", invariant=_loaded_inv, body_ensures=_load_body, body_no_raise=True,
       modifies=lambda L: [("all",)])


def _load_exit(S_, kind):
    """the loaded plugins are returned sorted by their declared order (None counts as 0); only asking a plugin for its
    order may fail"""
    sorts = S_.calls("list.sort")
    orders = S_.calls("order")
    if kind == "raise":
        return [("only-the-order-callback-may-fail", "LOG", z3.BoolVal(bool(orders) and orders[-1].raised), None)]
    if kind != "return":
        return []
    if len(sorts) != 1 or sorts[0].kwargs.get("reverse") is not None:
        return [("sorted-once-ascending-by-declared-order", "LOG", z3.BoolVal(False), None)]
    st_ = sorts[0]
    out = [("returns-the-sorted-list-of-loaded-plugins", "POST", S_.result == st_.args[0], None)]
    if len(st_.args) == 3:
        el, kv = st_.args[1], st_.args[2]
        ok = len(orders) == 1 and not orders[0].raised
        res = orders[0].result if ok else VNone
        out.append(("sorted-once-ascending-by-declared-order", "LOG", And(
            z3.BoolVal(ok), orders[0].args[0] == el if ok else z3.BoolVal(False),
            Implies(Val.is_VInt(res), kv == res), Implies(Val.is_VNone(res), kv == VInt(0))), None))
    return out


c.exit_check(_load_exit)


# ---------------------------------------------------------------- the ConfigService views over the loaded plugins
def _view_contract(view, cls):
    c = contract(CS, "ConfigService." + view, ["C20", "C17"])
    c.param("self", OBJ("ConfigService"))
    c.result = LIST(HOSTOBJ)
    c.logged = view
    c.host_ops_exc_base = "Exception"
    c.modifies = lambda S_: []

    def body(L):
        """exactly the plugins of the requested kind, each once, in loading order: an iteration yields its plugin iff it
        is an instance of the kind"""
        plugin = L.seq.element(L.index)
        ys = L.iter_yields()
        inst = IsSub(L.now().typeof(plugin), z3.IntVal(L.cid(cls)))
        if not ys:
            return [("yields-the-plugin-iff-it-is-of-this-kind", Not(inst))]
        return [("yields-the-plugin-iff-it-is-of-this-kind", And(z3.BoolVal(len(ys) == 1), ys[0] == plugin, inst))]

    # the loop lives in the (inlined) private generator
    c.loop((CS + ":ConfigService.__plugin_generator", "iter:self._plugins"), body_ensures=body, body_no_raise=True,
           modifies_kind="none")
    return c


for _view, _cls in (("resource_providers", "ResourceProvider"), ("snapshot_decorators", "SnapshotDecorator"),
                    ("metric_processors", "MetricProcessor"), ("span_processors", "SpanProcessor")):
    _view_contract(_view, _cls)


# ---------------------------------------------------------------- Deep.start
def _resource_method(it, sc, args, kwargs, node, anchor):
    """ResourceProvider.resource of some plugin: a Resource, None, or the plugin failing"""
    it.st.log.append(LogEntry("resource", list(args), kwargs, None, anchor))
    if it.ctx.branch(z3.Bool("resource_raises!%d" % len(it.st.log)), "resource raises"):
        it.st.log[-1].raised = True
        it.raise_symbolic(anchor, "Exception", "resource")
    res = it.make_param("plugin_resource", OPT(OBJ("Resource")))
    it.st.log[-1].result = res
    return res


def _install_start_methods(S_):
    S_.I.st.ghost["host_methods"] = {"resource": SymCallable("resource", _resource_method)}
    S_.I.st.ghost["host_fields"] = {"name": ANY}
    S_.I.st.ghost.setdefault("config_types", {}).update({"PLUGINS": OPT(LIST(STR)), "resource_providers": LIST(HOSTOBJ)})


c = contract(DP, "Deep.start", ["C14", "C20", "C18"])
c.param("self", OBJ("Deep"))
c.init_ghost = _install_start_methods
# configuration domain (see GRPCService.start): SERVICE_SECURE is a bool or text
c.req("secure-flag-is-bool-or-text", lambda S_: Or(Val.is_VBool(S_.old.f(S_.old.f(S_.a.self, "grpc"), "_secure")),
                                                   Val.is_VStr(S_.old.f(S_.old.f(S_.a.self, "grpc"), "_secure"))))
c.result = NONE
c.host_ops_exc_base = "Exception"
c.modifies = lambda S_: [("all",)]
c.protects = lambda S_: {"fields": ["trigger_handler", "task_handler", "poll", "config", "grpc", "started", "_secure",
                                    "_service_url", "_plugins", "_resource"], "lists": [], "dicts": []}
# connecting or the first poll set-up may fail (bad settings): start then fails visibly
c.sig("Exception", "a-start-step-failed", cond=lambda S_: Not(bv(S_.old.f(S_.a.self, "started"))),
      post=lambda S_: S_.f(S_.a.self, "started") == VFalse)

START_STEPS = ["load_plugins", "Resource.create", "TriggerHandler.start", "GRPCService.start", "LongPoll.start"]


def _setting(S_, name):
    gets = [e for e in S_.calls("config_get") if z3.simplify(e.args[1]).eq(VStr(name))]
    return gets[0].result if gets and gets[0].result is not None else None


def _start_log(S_, kind):
    """already started: nothing at all happens (hooks are installed once); otherwise plugins are loaded from the configured
    list, the resource is built, and tracing, the connection and polling are started once each, in this order, before the
    agent is marked started"""
    if kind != "return":
        return []
    started = bv(S_.old.f(S_.a.self, "started"))
    n = [len(S_.calls(l)) for l in START_STEPS]
    if sum(n) == 0:
        return [("repeat-start-does-nothing", "LOG", started, None)]
    lp = S_.calls("load_plugins")
    cfg = S_.old.f(S_.a.self, "config")
    pos = {l: [i for i, e in enumerate(S_.log) if e.label == l or e.label.endswith(":" + l)] for l in START_STEPS}
    in_order = all(pos[a] and pos[b] and pos[a][0] < pos[b][0] for a, b in zip(START_STEPS, START_STEPS[1:]))
    return [("every-start-step-once-in-order", "LOG", And(Not(started), z3.BoolVal(n == [1, 1, 1, 1, 1] and in_order)), None),
            ("plugins-loaded-from-the-configured-list-and-installed", "POST", And(
                lp[0].args[0] == cfg if lp else z3.BoolVal(False),
                lp[0].args[1] == _setting(S_, "PLUGINS") if lp and _setting(S_, "PLUGINS") is not None else z3.BoolVal(False),
                S_.f(cfg, "_plugins") == lp[0].result if lp else z3.BoolVal(False)), None),
            ("marked-started", "POST", S_.f(S_.a.self, "started") == VTrue, None)]


c.exit_check(_start_log)


def _provider_inv(L):
    dr = L.local("default_resource")
    return And(L.spec.isinst(dr, "Resource", L.now()), Val.r(dr) > 0, Val.r(dr) < L.I.st.next_id)


def _provider_body(L):
    """each provider is asked once; what it gives (if anything) is merged over what was there; its failure costs only its
    own contribution"""
    rs = [e for e in L.iter_log() if e.label == "resource"]
    ms = [e for e in L.iter_log() if e.label == "Resource.merge"]
    before = L.iter_pre_local("default_resource")
    cs = [("provider-asked-once", And(z3.BoolVal(len(rs) == 1), rs[0].args[0] == L.seq.element(L.index) if rs else z3.BoolVal(False)))]
    if ms and not ms[0].raised:
        ok = len(ms) == 1 and bool(rs) and not rs[0].raised
        cs.append(("plugin-resource-merged-over-the-current-one", And(
            z3.BoolVal(ok), ms[0].args[0] == before if ok else z3.BoolVal(False),
            ms[0].args[1] == rs[0].result if ok else z3.BoolVal(False),
            L.local("default_resource") == ms[0].result if ok else z3.BoolVal(False))))
    else:
        cs.append(("nothing-merged-keeps-the-resource", L.local("default_resource") == before))
    return cs


c.loop("iter:self.config.resource_providers", invariant=_provider_inv, body_ensures=_provider_body, body_no_raise=True,
       modifies=lambda L: [("all",)])


# ---------------------------------------------------------------- snapshot decoration and the snapshot results
def _decorate_method(it, sc, args, kwargs, node, anchor):
    """SnapshotDecorator.decorate of some plugin: attributes to add, None, or the plugin failing.  (Domain: the decoration's
    values are primitives - the domain of the attribute-store contracts, C18.)"""
    it.st.log.append(LogEntry("decorate", list(args), kwargs, None, anchor))
    if it.ctx.branch(z3.Bool("decorate_raises!%d" % len(it.st.log)), "decorate raises"):
        it.st.log[-1].raised = True
        it.raise_symbolic(anchor, "Exception", "decorate")
    res = it.make_param("decoration", OPT(OBJ("BoundedAttributes")))
    isnone, base = it._last_nullable
    d = it.st.get_field(Val.r(base), "_dict")
    k = z3.Const("k!deco", Val)
    it.ctx.assume(z3.ForAll([k], Implies(z3.Select(z3.Select(it.st.dhas, Val.r(d)), k), And(
        Not(Val.is_VRef(k)), Not(Val.is_VRef(z3.Select(z3.Select(it.st.dval, Val.r(d)), k)))))))
    it.st.log[-1].result = res
    return res


def _install_decorators(S_):
    S_.I.st.ghost["host_methods"] = {"decorate": SymCallable("decorate", _decorate_method)}
    S_.I.st.ghost.setdefault("config_types", {}).update({"snapshot_decorators": LIST(HOSTOBJ)})


SNAP_RESULTS = ["DeferredSnapshotActionResult", "SendSnapshotActionResult"]


def _result_shape(S_):
    h = S_.old
    S_.I.assume_shape(h.f(S_.a.self, "action_context"), OBJ("ActionContext", subclasses=[
        "SnapshotActionContext", "LogActionContext", "MetricActionContext", "SpanActionContext", "NoActionContext"]))
    S_.I.assume_shape(h.f(S_.a.self, "snapshot"), OBJ("EventSnapshot"))
    return z3.BoolVal(True)


c = contract(SA, "DeferredSnapshotActionResult._decorate_snapshot", ["C20", "C02"])
c.param("self", OBJ("DeferredSnapshotActionResult", inv=False, subclasses=SNAP_RESULTS)).param("ctx", OBJ("TriggerContext"))
c.req("result-holds-its-action-context-and-snapshot", _result_shape)
c.init_ghost = _install_decorators
c.result = VAL
c.logged = "_decorate_snapshot"
c.host_ops_exc_base = "Exception"
c.modifies = lambda S_: [("all",)]
c.protects = lambda S_: {"fields": ["action_context", "snapshot", "_attributes", "_immutable", "location_action",
                                    "trigger_context"], "lists": [], "dicts": []}
c.sig("TypeError", "snapshot-attributes-are-frozen",
      cond=lambda S_: bv(S_.old.f(S_.old.f(S_.old.f(S_.a.self, "snapshot"), "_attributes"), "_immutable")))


def _deco_body(L):
    """each decorator is asked once, for this snapshot and action; what it returns (if anything) is merged; a failing decorator
    costs only its own decoration"""
    ds = [e for e in L.iter_log() if e.label == "decorate"]
    ms = [e for e in L.iter_log() if e.label == "merge_in"]
    me = L.local("self")
    h = L.at_entry()
    cs = [("decorator-asked-once-for-this-snapshot-and-action", And(
        z3.BoolVal(len(ds) == 1), ds[0].args[0] == L.seq.element(L.index) if ds else z3.BoolVal(False),
        ds[0].args[2] == h.f(me, "action_context") if ds and len(ds[0].args) > 2 else z3.BoolVal(False)))]
    if ms:
        ok = len(ms) == 1 and bool(ds) and not ds[0].raised
        cs.append(("only-a-returned-decoration-is-merged-into-the-new-attributes", And(
            z3.BoolVal(ok), ms[0].args[0] == L.local("attributes"), ms[0].args[1] == ds[0].result if ok else z3.BoolVal(False),
            Not(Val.is_VNone(ds[0].result)) if ok else z3.BoolVal(False))))
    elif ds and not ds[0].raised:
        cs.append(("a-returned-decoration-is-not-dropped", Val.is_VNone(ds[0].result)))
    return cs


def _deco_inv(L):
    """the attributes being collected stay an unfrozen store of primitive values (domain of the C18 contracts)"""
    n = L.now()
    a = L.local("attributes")
    d = n.f(a, "_dict")
    k = z3.Const("k!decoinv", Val)
    from pyvc.core import ALLOC_BASE
    keys = n.f(d, "$okeys")
    return And(L.spec.isinst(a, "BoundedAttributes", n), Val.r(a) > 0, Val.r(a) < L.I.st.next_id,
               # its own store, created by this call: it cannot be the store of a decoration or of the snapshot
               Val.is_VRef(d), Val.r(d) >= ALLOC_BASE, Val.r(d) < L.I.st.next_id,
               Val.is_VRef(keys), Val.r(keys) >= ALLOC_BASE, Val.r(keys) < L.I.st.next_id,
               z3.ForAll([k], Implies(n.dhas(d, k), And(Not(Val.is_VRef(k)), Not(Val.is_VRef(n.dget(d, k)))))))


c.loop("iter:ctx.config.snapshot_decorators", invariant=_deco_inv, body_ensures=_deco_body, body_no_raise=True,
       modifies=lambda L: [("all",)])


def _deco_exit(S_, kind):
    """the snapshot itself is returned, after the collected decorations (with the context and tracepoint ids) were merged into
    its attributes"""
    if kind != "return":
        return []
    ms = S_.calls("merge_in")
    inits = S_.calls("BoundedAttributes.__init__")
    snap = S_.old.f(S_.a.self, "snapshot")
    last = ms[-1] if ms else None
    return [("returns-the-snapshot", "POST", S_.result == snap, None),
            ("decorations-merged-into-the-snapshot-attributes-last", "LOG", And(
                z3.BoolVal(last is not None and len(inits) == 1 and not last.raised),
                last.args[0] == S_.old.f(snap, "_attributes") if last is not None else z3.BoolVal(False),
                last.args[1] == inits[0].args[0] if last is not None and inits else z3.BoolVal(False)), None)]


c.exit_check(_deco_exit)


# SendSnapshotActionResult.process: decorate, then hand over exactly once
c = contract(SA, "SendSnapshotActionResult.process", ["C20", "C09", "C02"])
c.param("self", OBJ("SendSnapshotActionResult", inv=False)).param("ctx", OBJ("TriggerContext"))
c.req("result-holds-its-action-context-and-snapshot", _result_shape)
c.req("context-has-its-push-service", lambda S_: S_.I.assume_shape(
    S_.old.f(S_.a.ctx, "TriggerContext.__push_service"), OBJ("PushService", inv=False)) or z3.BoolVal(True))
c.result = VAL
c.logged = "ActionResult.process"
c.host_ops_exc_base = "Exception"
c.modifies = lambda S_: [("all",)]
c.protects = lambda S_: {"fields": ["action_context", "snapshot", "_TriggerContext__push_service"], "lists": [], "dicts": []}
c.sig("BaseException", "decoration-or-hand-over-refused")       # contained per result by TriggerContext.__exit__


def _send_exit(S_, kind):
    deco = S_.calls("_decorate_snapshot")
    push = S_.calls("push_snapshot")
    if kind == "raise":
        return [("never-handed-over-twice", "LOG", z3.BoolVal(len(push) <= 1), None)]
    return [("decorated-once-then-handed-over-exactly-once", "LOG", And(
        z3.BoolVal(len(deco) == 1 and len(push) == 1), deco[0].args[0] == S_.a.self if deco else z3.BoolVal(False),
        deco[0].args[1] == S_.a.ctx if deco else z3.BoolVal(False),
        push[0].args[1] == deco[0].result if deco and push else z3.BoolVal(False)), None),
        ("nothing-deferred", "POST", Val.is_VNone(S_.result), None)]


c.exit_check(_send_exit)


c = contract(SA, "DeferredSnapshotActionResult.process", ["C20", "C15"])
c.param("self", OBJ("DeferredSnapshotActionResult", inv=False)).param("ctx", OBJ("TriggerContext"))
c.req("result-holds-its-action-context-and-snapshot", _result_shape)
c.result = VAL
c.logged = "ActionResult.process"
c.host_ops_exc_base = "Exception"
c.modifies = lambda S_: [("all",)]
c.protects = lambda S_: {"fields": ["action_context", "snapshot"], "lists": [], "dicts": []}
c.sig("BaseException", "decoration-refused")


def _deferred_exit(S_, kind):
    if kind != "return":
        return []
    deco = S_.calls("_decorate_snapshot")
    push = S_.calls("push_snapshot")
    r = S_.result
    return [("decorated-once-nothing-sent-yet", "LOG", And(z3.BoolVal(len(deco) == 1 and len(push) == 0),
                                                           deco[0].args[0] == S_.a.self if deco else z3.BoolVal(False)), None),
            ("a-callback-holding-this-action-and-the-decorated-snapshot", "POST", And(
                S_.created_during_call(r), S_.isinst(r, "DeferredSnapshotActionCallback"),
                S_.f(r, "DeferredSnapshotActionCallback.__action_context") == S_.old.f(S_.a.self, "action_context"),
                S_.f(r, "DeferredSnapshotActionCallback.__snapshot") == deco[0].result if deco else z3.BoolVal(False)), None)]


c.exit_check(_deferred_exit)


# ---------------------------------------------------------------- DeferredSnapshotActionCallback.process (C15)
c = contract(SA, "DeferredSnapshotActionCallback.process", ["C15", "C09", "C07"])
c.param("self", OBJ("DeferredSnapshotActionCallback", inv=False)).param("ctx", OBJ("TriggerContext"))
c.param("event", STR).param("frame", FRAME()).param("arg", ANY)
c.req("callback-holds-its-action-context-and-snapshot", lambda S_: And(
    S_.I.assume_shape(S_.old.f(S_.a.self, "DeferredSnapshotActionCallback.__action_context"), OBJ("ActionContext", subclasses=[
        "SnapshotActionContext", "LogActionContext", "MetricActionContext", "SpanActionContext", "NoActionContext"])) or z3.BoolVal(True),
    S_.I.assume_shape(S_.old.f(S_.a.self, "DeferredSnapshotActionCallback.__snapshot"), OBJ("EventSnapshot")) or z3.BoolVal(True),
    S_.I.assume_shape(S_.old.f(S_.a.ctx, "TriggerContext.__push_service"), OBJ("PushService", inv=False)) or z3.BoolVal(True)))
c.result = VAL
c.logged = "DeferredSnapshotActionCallback.process"
c.host_ops_exc_base = "Exception"
c.modifies = lambda S_: [("all",)]
c.protects = lambda S_: {"fields": ["_DeferredSnapshotActionCallback__action_context", "_DeferredSnapshotActionCallback__snapshot",
                                    "_TriggerContext__push_service", "_watches", "_var_lookup"], "lists": [], "dicts": []}
c.sig("BaseException", "capture-or-hand-over-failed")      # contained by the caller (__process_call_backs)


def _deferred_cb_exit(S_, kind):
    """on the return / exception event of the invocation: the returned value or raised exception (this event's arg) is captured
    once, added to the pending snapshot as a watch with its variables, and the snapshot is handed over exactly once; the callback
    is then finished (False)"""
    cap = S_.calls("process_capture_variable")
    push = S_.calls("push_snapshot")
    addw = S_.calls("add_watch_result")
    mrg = S_.calls("merge_var_lookup")
    snap = S_.old.f(S_.a.self, "DeferredSnapshotActionCallback.__snapshot")
    actx = S_.old.f(S_.a.self, "DeferredSnapshotActionCallback.__action_context")
    closing = Or(S_.a.event == VStr("exception"), S_.a.event == VStr("return"))
    out = [("never-handed-over-twice", "LOG", z3.BoolVal(len(push) <= 1), None)]
    if kind != "return":
        return out
    out.append(("handed-over-exactly-once-and-finished", "LOG", And(
        z3.BoolVal(len(push) == 1), push[0].args[1] == snap if push else z3.BoolVal(False), S_.result == VFalse), None))
    if cap:
        ok = len(cap) == 1 and len(addw) == 1 and len(mrg) == 1
        out.append(("result-of-this-invocation-captured-into-the-pending-snapshot", "LOG", And(
            closing, z3.BoolVal(ok), cap[0].args[0] == actx, cap[0].args[1] == S_.a.event, cap[0].args[2] == S_.a.arg,
            addw[0].args[0] == snap if ok else z3.BoolVal(False),
            # the watch added is the capture made here: named after the event, source CAPTURE
            And(S_.created_during_call(addw[0].args[1]), S_.isinst(addw[0].args[1], "WatchResult"),
                S_.f(addw[0].args[1], "_expression") == S_.a.event,
                S_.f(addw[0].args[1], "WatchResult.__source") == VStr("CAPTURE")) if ok else z3.BoolVal(False),
            mrg[0].args[0] == snap if ok else z3.BoolVal(False),
            S_.created_during_call(mrg[0].args[1]) if ok else z3.BoolVal(False)), None))
    else:
        out.append(("nothing-captured-only-on-other-events", "LOG", Not(closing), None))
    return out


c.exit_check(_deferred_cb_exit)
