"""C06 total collection / C07 closed table / C02 fidelity: variable processing (variable_processor.py)."""
from .common import *
from .c05_bounds import VP, VSP, BFS, cfg_of, inv_vsp
from pyvc.core import ALLOC_BASE, TYPEBASE, SymCallable, LogEntry, IdStr, ReprOf

ITER_LIKE = ["list_iterator", "listiterator", "list_reverseiterator", "listreverseiterator"]
LIST_LIKE = ["frozenset", "set", "list", "tuple"]
NO_CHILD = ["str", "int", "float", "bool", "type", "module", "unicode", "long", "NoneType", "traceback"] + ITER_LIKE


def name_in(s, names):
    return Or(*[s == z3.StringVal(n) for n in names])


def tyname(S_, h, v):
    """type(v).__name__"""
    return ClassName(S_.I.st.type_of_val(v)) if h is None else ClassName(_type_of(S_, h, v))


def _type_of(S_, h, v):
    t = S_.table
    return If(Val.is_VNone(v), z3.IntVal(t.id("NoneType")), If(Val.is_VBool(v), z3.IntVal(t.id("bool")),
           If(Val.is_VInt(v), z3.IntVal(t.id("int")), If(Val.is_VStr(v), z3.IntVal(t.id("str")),
           If(Val.is_VFloat(v), z3.IntVal(t.id("float")), h.typeof(v))))))


# ---------------------------------------------------------------- var_modifiers
c = contract(VP, "var_modifiers", ["C06", "C02"])
c.param("var_name", ANY)
c.result = FRESH("list")
c.host_ops_exc_base = "Exception"
c.modifies = lambda S_: []


def _mods_post(S_):
    n = S_.a.var_name
    r = S_.result
    s = sv(n)
    p2, p1 = z3.PrefixOf(z3.StringVal("__"), s), z3.PrefixOf(z3.StringVal("_"), s)
    return Implies(Val.is_VStr(n), And(
        Implies(p2, And(S_.new.llen(r) == 1, S_.new.lget(r, 0) == VStr("private"))),
        Implies(And(Not(p2), p1), And(S_.new.llen(r) == 1, S_.new.lget(r, 0) == VStr("protected"))),
        Implies(Not(p1), S_.new.llen(r) == 0)))


c.ens("modifier-table", _mods_post, props=["C02"])
# C06: names of dictionary entries may be any hashable object (non-string keys): no failure
c.sig_props = ["C06"]

# ---------------------------------------------------------------- variable_to_string
c = contract(VP, "variable_to_string", ["C06", "C02"])
c.param("variable_type", VAL).param("var_value", ANY)
c.req("type-is-the-values-type", lambda S_: S_.a.variable_type == VRef(z3.IntVal(TYPEBASE) + _type_of(S_, S_.old, S_.a.var_value)))
c.result = STR
c.host_ops_exc_base = "Exception"
c.modifies = lambda S_: []
c.sig_props = ["C06"]
c.init_ghost = lambda S_: S_.I.st.ghost.setdefault("type_terms", []).append(z3.simplify(Val.r(S_.a.variable_type)))


def _vts_parts(S_):
    v = S_.a.var_value
    tn = ClassName(_type_of(S_, S_.old, v))
    is_dict = And(Val.is_VRef(v), S_.old.typeof(v) == S_.cid("dict"))
    exact_seq = And(Val.is_VRef(v), Or(*[S_.old.typeof(v) == S_.cid(k) for k in ("list", "tuple", "set", "frozenset")]))
    r = sv(S_.result)
    raises = S_.I.hostfn("str", "raises")(v)
    other = And(Not(name_in(tn, ITER_LIKE)), Not(is_dict), Not(name_in(tn, LIST_LIKE)))
    return {
        "dict-size": Implies(is_dict, r == z3.Concat(z3.StringVal("Size: "), z3.IntToStr(S_.old.dlen(v)))),
        "sequence-size": Implies(exact_seq, r == z3.Concat(z3.StringVal("Size: "), z3.IntToStr(S_.old.llen(v)))),
        "primitive-text": Implies(And(other, Not(Val.is_VRef(v))), r == StrOf(v)),
        "object-text": Implies(And(other, Val.is_VRef(v), Not(raises)), r == StrOf(v)),
    }


for _k in ("dict-size", "sequence-size", "primitive-text", "object-text"):
    c.ens("text-form/" + _k, (lambda S_, _k=_k: _vts_parts(S_)[_k]), props=["C02"])


# =============================================================================== NodeValue / Node
@class_invariant("NodeValue")
def inv_nodevalue(S_, nv):
    return z3.BoolVal(True)


@class_invariant("Node")
def inv_node(S_, n):
    h = S_.new
    ch = h.f(n, "_children")
    v = h.f(n, "_value")
    return And(Val.is_VInt(h.f(n, "_depth")), iv(h.f(n, "_depth")) >= 0, S_.pre(ch, "list"), h.llen(ch) >= 0,
               Or(Val.is_VNone(v), S_.pre(v, "NodeValue")), Val.is_VRef(h.f(n, "_parent")))


def lookup_of(h, p):
    return h.f(p, "VariableSetProcessor.__var_lookup")


def cache_of(h, p):
    return h.f(h.f(p, "VariableSetProcessor.__var_cache"), "VariableCacheProvider.__cache")


# ---------------------------------------------------------------- process_variable (module function)
c = contract(VP, "process_variable", ["C02", "C05", "C06", "C07"])
c.param("var_collector", OBJ("VariableSetProcessor")).param("node", OBJ("NodeValue"))
c.req("node-value-is-host-data", lambda S_: S_.I.assume_shape(S_.old.f(S_.a.node, "value"), ANY) or z3.BoolVal(True))
c.req("string-limit-not-negative", lambda S_: cfg_of(S_.old, S_.a.var_collector, "max_string_length") >= 0)
c.result = FRESH("VariableResponse")
c.host_ops_exc_base = "Exception"
c.logged = "process_variable"
c.sig_props = ["C06"]
c.modifies = lambda S_: [("dict", lookup_of(S_.old, S_.a.var_collector)), ("dict", cache_of(S_.old, S_.a.var_collector))]


def _pv_common(S_):
    h, n = S_.old, S_.new
    p, node = S_.a.var_collector, S_.a.node
    v = h.f(node, "value")
    key = Val.VStr(IdStr(v))
    cache, table = cache_of(h, p), lookup_of(h, p)
    r = S_.result
    vid = n.f(r, "VariableResponse.__variable_id")
    return h, n, p, node, v, key, cache, table, r, vid


def _pv_cached(S_):
    """C07: an object that already has an id is referenced, not recorded again, and its children are not
    revisited; the table and the cache are unchanged."""
    h, n, p, node, v, key, cache, table, r, vid = _pv_common(S_)
    hit = h.dhas(cache, key)
    return Implies(hit, And(
        S_.is_fresh(vid, "VariableId"),
        n.f(vid, "_vid") == h.dget(cache, key), n.f(vid, "_name") == h.f(node, "name"),
        n.f(vid, "_original_name") == h.f(node, "original_name"),
        n.f(r, "VariableResponse.__process_children") == VFalse,
        n.dhas_arr(table) == h.dhas_arr(table), n.dval_arr(table) == h.dval_arr(table),
        n.dhas_arr(cache) == h.dhas_arr(cache), n.dval_arr(cache) == h.dval_arr(cache), n.dlen(cache) == h.dlen(cache)))


def _pv_new(S_):
    """C07/C02/C05: a new object gets the next id, exactly one table entry with its real type name, its text
    form cut to the limit (flag exactly when cut) and its identity; every other entry is untouched."""
    h, n, p, node, v, key, cache, table, r, vid = _pv_common(S_)
    hit = h.dhas(cache, key)
    new_id = Val.VStr(StrOf(Val.VInt(h.dlen(cache) + 1)))
    var = n.dget(table, new_id)
    limit = cfg_of(h, p, "max_string_length")
    return Implies(Not(hit), And(
        S_.is_fresh(vid, "VariableId"),
        n.f(vid, "_vid") == new_id, n.f(vid, "_name") == h.f(node, "name"),
        n.f(vid, "_original_name") == h.f(node, "original_name"),
        n.f(r, "VariableResponse.__process_children") == VTrue,
        n.dhas(cache, key), n.dget(cache, key) == new_id, n.dlen(cache) == h.dlen(cache) + 1,
        n.dhas_arr(cache) == z3.Store(h.dhas_arr(cache), key, z3.BoolVal(True)),
        n.dval_arr(cache) == z3.Store(h.dval_arr(cache), key, new_id),
        n.dhas(table, new_id), S_.is_fresh(var, "Variable"),
        n.dhas_arr(table) == z3.Store(h.dhas_arr(table), new_id, z3.BoolVal(True)),
        n.dval_arr(table) == z3.Store(h.dval_arr(table), new_id, var),
        n.f(var, "_type") == Val.VStr(ClassName(_type_of(S_, h, v))),
        n.f(var, "_hash") == key,
        Val.is_VStr(n.f(var, "_value")), z3.Length(sv(n.f(var, "_value"))) <= limit,
        Val.is_VBool(n.f(var, "_truncated")),
        S_.is_fresh(n.f(var, "_children"), "list"), n.llen(n.f(var, "_children")) == 0))


c.ens("cached-object-is-referenced-only", _pv_cached, props=["C07"])
c.ens("new-object-recorded-once-bounded", _pv_new, props=["C07", "C02", "C05"])


# ---------------------------------------------------------------- find_children_for_parent
def nodes_result_ok(S_, r, parent):
    """The result is a new list of new root-level nodes attached to `parent` (element typing declared)."""
    k = z3.Int("k!nro")
    return And(S_.is_fresh(r, "list") if not isinstance(r, bool) else True, S_.new.llen(r) >= 0,
               S_.elems(r, OBJ("Node")),
               # every node in the result was created by this call
               z3.ForAll([k], Implies(And(k >= 0, k < S_.new.llen(r)), S_.created_during_call(S_.new.lget(r, k)))))


c = contract(VP, "find_children_for_parent", ["C06", "C02"])
c.param("var_collector", OBJ("VariableSetProcessor")).param("parent_node", VAL).param("value", ANY)
c.param("variable_type", VAL)
c.req("type-is-the-values-type", lambda S_: S_.a.variable_type == VRef(z3.IntVal(TYPEBASE) + _type_of(S_, S_.old, S_.a.value)))
c.init_ghost = lambda S_: S_.I.st.ghost.setdefault("type_terms", []).append(z3.simplify(Val.r(S_.a.variable_type)))
c.result = FRESH("list")
c.host_ops_exc_base = "Exception"
c.modifies = lambda S_: []
c.sig_props = ["C06"]
c.logged = "find_children_for_parent"
# child discovery runs host code (attribute access, iteration): it may fail; containment is the caller's duty
c.sig("Exception", "host-data-failed")
c.ens("list-of-new-nodes", lambda S_: nodes_result_ok(S_, S_.result, S_.a.parent_node))

# ---------------------------------------------------------------- process_child_nodes
c = contract(VP, "process_child_nodes", ["C05", "C06"])
c.param("var_collector", OBJ("VariableSetProcessor")).param("variable_id", VAL).param("var_value", ANY)
c.param("frame_depth", INT)
c.result = FRESH("list")
c.host_ops_exc_base = "Exception"
c.modifies = lambda S_: []
c.sig_props = ["C06"]
c.logged = "process_child_nodes"
c.sig("Exception", "host-data-failed")
c.ens("list-of-new-nodes", lambda S_: nodes_result_ok(S_, S_.result, None))
# C05: nothing nested deeper than the maximum depth: children are only discovered for nodes above the cut
c.ens("depth-cap", lambda S_: Implies(iv(S_.a.frame_depth) + 1 >= cfg_of(S_.old, S_.a.var_collector, "max_var_depth"),
                                      S_.new.llen(S_.result) == 0), props=["C05"])
c.ens("no-children-for-leaf-types", lambda S_: Implies(
    name_in(ClassName(_type_of(S_, S_.old, S_.a.var_value)), NO_CHILD), S_.new.llen(S_.result) == 0), props=["C05", "C02"])

# ---------------------------------------------------------------- process_dict_breadth_first
c = contract(VP, "process_dict_breadth_first", ["C06", "C02"])
def _name_func(it, sc, args, kwargs, node, anchor):
    """The name-preprocessing callable (identity lambda or correct_names): returns some name; correct_names
    fails with AttributeError on non-text keys."""
    if it.ctx.branch(z3.Bool("name_func_raises"), "name func raises"):
        it.raise_symbolic(anchor, "Exception", "name-func")
    res = it.ctx.fresh("child_name", Val)
    it.assume_shape(res, ANY)
    return res


c.param("parent_node", VAL).param("type_name", STR).param("value", DICT()).param("func", CALLABLE(_name_func))
c.result = FRESH("list")
c.host_ops_exc_base = "Exception"
c.modifies = lambda S_: []
c.logged = "process_dict_breadth_first"
c.ens("list-of-new-nodes", lambda S_: And(nodes_result_ok(S_, S_.result, S_.a.parent_node),
                                          S_.new.llen(S_.result) <= S_.old.dlen(S_.a.value)))
c.sig("Exception", "host-key-failed")      # `key in value` hashes / compares host keys
c.sig_props = ["C06"]
c.max_paths = 400


# =============================================================================== search (BFS consumer)
# ParentNode.add_child (abstract): implemented by the two local classes FrameParent / VariableParent
c = contract(BFS, "ParentNode.add_child", [], coarse=True)
c.param("self", OBJ("ParentNode", inv=False)).param("child", VAL)
c.result = NONE
c.logged = "add_child"
c.modifies = lambda S_: [("list*",)]

# ---------------------------------------------------------------- Node.add_children
c = contract(BFS, "Node.add_children", ["C05"])
c.param("self", OBJ("Node")).param("children", LIST(OBJ("Node")))
c.req("children-list-is-not-own-list", lambda S_: S_.a.children != S_.old.f(S_.a.self, "_children"))


def _not_own_child(S_):
    k = z3.Int("k!noc")
    return z3.ForAll([k], Implies(And(k >= 0, k < S_.old.llen(S_.a.children)), S_.old.lget(S_.a.children, k) != S_.a.self))


c.req("node-is-not-its-own-child", _not_own_child)
c.result = NONE
c.logged = "add_children"


def _addch_post(S_):
    """Every added child is one level deeper than this node and is appended, in order, to its children."""
    h, n = S_.old, S_.new
    me, ch = S_.a.self, S_.a.children
    mine = h.f(me, "_children")
    k = z3.Int("k!ac")
    n0, m = h.llen(mine), h.llen(ch)
    d = iv(h.f(me, "_depth"))
    return And(n.llen(mine) == n0 + m,
               z3.ForAll([k], Implies(And(k >= 0, k < n0), n.lget(mine, k) == h.lget(mine, k))),
               z3.ForAll([k], Implies(And(k >= 0, k < m), And(n.lget(mine, n0 + k) == h.lget(ch, k),
                                                             n.f(h.lget(ch, k), "_depth") == VInt(d + 1)))))


c.ens("children-one-level-deeper-appended-in-order", _addch_post)
c.modifies = lambda S_: [("field*", "_depth"), ("list", S_.old.f(S_.a.self, "_children"))]


def _addch_inv(L):
    h0, h = L.at_entry(), L.now()
    me, ch = L.local("self"), L.local("children")
    mine = h0.f(me, "_children")
    k = z3.Int("k!aci")
    n0 = h0.llen(mine)
    d = iv(h0.f(me, "_depth"))
    return And(h.f(me, "_children") == mine, h.f(me, "_depth") == h0.f(me, "_depth"),
               h.llen(mine) == n0 + L.index, h.llen(ch) == h0.llen(ch), h.larr(ch) == h0.larr(ch),
               z3.ForAll([k], Implies(And(k >= 0, k < n0), h.lget(mine, k) == h0.lget(mine, k))),
               z3.ForAll([k], Implies(And(k >= 0, k < L.index), And(h.lget(mine, n0 + k) == h0.lget(ch, k),
                                                                   h.f(h0.lget(ch, k), "_depth") == VInt(d + 1)))))


c.loop("iter:children", invariant=_addch_inv,
       modifies=lambda L: [("field*", "_depth"), ("list", L.at_entry().f(L.local("self"), "_children"))])


# ---------------------------------------------------------------- VariableSetProcessor.check_var_count
c = contract(VSP, "VariableSetProcessor.check_var_count", ["C05"])
c.param("self", OBJ("VariableSetProcessor"))
c.result = BOOL
c.modifies = lambda S_: []
c.ens("budget-test", lambda S_: bv(S_.result) == (S_.old.dlen(cache_of(S_.old, S_.a.self)) <= cfg_of(S_.old, S_.a.self, "max_variables")))

# ---------------------------------------------------------------- VariableSetProcessor.search_function
c = contract(VSP, "VariableSetProcessor.search_function", ["C05", "C06", "C07"])
c.param("self", OBJ("VariableSetProcessor")).param("node", OBJ("Node"))
c.req("node-parent", lambda S_: S_.I.assume_shape(S_.old.f(S_.a.node, "_parent"), OBJ("ParentNode", inv=False)) or z3.BoolVal(True))
c.req("string-limit-not-negative", lambda S_: cfg_of(S_.old, S_.a.self, "max_string_length") >= 0)
c.result = BOOL
c.host_ops_exc_base = "Exception"
c.logged = "search_function"
c.modifies = lambda S_: [("dict", lookup_of(S_.old, S_.a.self)), ("dict", cache_of(S_.old, S_.a.self)),
                         ("list*",), ("field*", "_depth")]
# C06: whatever the value, processing one node never fails (a failing value costs only its own children)
c.sig_props = ["C06"]


def _sf_budget(S_):
    """C05: the budget is tested before each node: with the budget spent the node is not recorded and the
    search stops; a node adds at most one entry."""
    h, n = S_.old, S_.new
    me = S_.a.self
    size0, size1 = h.dlen(cache_of(h, me)), n.dlen(cache_of(h, me))
    over = size0 > cfg_of(h, me, "max_variables")
    return And(Implies(over, And(Not(bv(S_.result)), size1 == size0,
                                 n.dhas_arr(lookup_of(h, me)) == h.dhas_arr(lookup_of(h, me)))),
               Implies(Not(over), bv(S_.result)),
               size1 >= size0, size1 <= size0 + 1)


c.ens("budget-checked-before-each-node", _sf_budget, props=["C05"])


def _sf_log(S_, kind):
    """C07: a cached (already recorded) object's children are not processed again; children found for a new
    object are attached one level below the node."""
    if kind != "return":
        return []
    pv = S_.calls("process_variable")
    pc_ = S_.calls("process_child_nodes")
    ac = S_.calls("add_children")
    add = S_.calls("add_child")
    out = [("one-reference-per-node", "LOG", z3.BoolVal(len(add) == len(pv) and len(pv) <= 1), ["C07", "C02"])]
    if pv and not pv[0].raised:
        r = pv[0].result
        proc = bv(S_.new.f(r, "VariableResponse.__process_children"))
        out.append(("children-only-for-new-objects", "LOG",
                    proc if pc_ else Not(proc), ["C07"]))
        if add:
            out.append(("parent-gets-this-nodes-reference", "LOG",
                        And(add[0].args[0] == S_.old.f(S_.a.node, "_parent"),
                            add[0].args[1] == S_.new.f(r, "VariableResponse.__variable_id")), ["C07", "C02"]))
    if pc_ and not pc_[0].raised:
        out.append(("children-depth-from-node", "LOG",
                    And(pc_[0].args[3] == S_.old.f(S_.a.node, "_depth"), z3.BoolVal(len(ac) == 1)), ["C05"]))
    return out


c.exit_check(_sf_log)


# ---------------------------------------------------------------- VariableSetProcessor.process_variable
c = contract(VSP, "VariableSetProcessor.process_variable", ["C06", "C07", "C02"])
c.param("self", OBJ("VariableSetProcessor")).param("name", VAL).param("value", ANY)
c.req("string-limit-not-negative", lambda S_: cfg_of(S_.old, S_.a.self, "max_string_length") >= 0)
c.result = TUPLE(VAL, VAL)
c.host_ops_exc_base = "Exception"
c.logged = "VariableSetProcessor.process_variable"
c.modifies = lambda S_: [("all",)]
c.sig_props = ["C06"]


def _vspv_post(S_):
    """The returned VariableId names the value's entry: the id recorded for this object's identity."""
    h, n = S_.old, S_.new
    me = S_.a.self
    vid = n.lget(S_.result, 0)
    key = Val.VStr(IdStr(S_.a.value))
    cache = cache_of(h, me)
    return And(S_.is_fresh(vid, "VariableId"), n.f(vid, "_name") == S_.a.name,
               Implies(h.dhas(cache, key), n.f(vid, "_vid") == h.dget(cache, key)),
               Val.is_VStr(n.lget(S_.result, 1)))


c.ens("reference-to-the-values-entry", _vspv_post, props=["C07", "C02"])
c.ens("keeps-its-table-and-cache-objects", lambda S_: And(
    S_.f(S_.a.self, "VariableSetProcessor.__var_lookup") == S_.old.f(S_.a.self, "VariableSetProcessor.__var_lookup"),
    S_.f(S_.a.self, "VariableSetProcessor.__var_cache") == S_.old.f(S_.a.self, "VariableSetProcessor.__var_cache")),
    props=["C07", "C15"])


