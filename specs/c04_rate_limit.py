"""C04 Rate limiting: fire_count, fire_period and time window are never exceeded."""
from .common import *

# ---------------------------------------------------------------- TracepointWindow.in_window
c = contract(TPCFG, "TracepointWindow.in_window", ["C04"])
c.param("self", OBJ("TracepointWindow")).param("ts", INT)
c.result = BOOL
c.ens("window-spec", lambda S_: bv(S_.result) == spec_in_window(
    iv(S_.old.f(S_.a.self, "_start")), iv(S_.old.f(S_.a.self, "_end")), iv(S_.a.ts)))
c.modifies = lambda S_: []

# ---------------------------------------------------------------- TracepointExecutionStats.fire
c = contract(TPCFG, "TracepointExecutionStats.fire", ["C04"])
c.param("self", OBJ("TracepointExecutionStats")).param("ts", INT)
c.req("ts-positive", lambda S_: iv(S_.a.ts) > 0)
c.result = NONE
c.ens("count-incremented", lambda S_: S_.f(S_.a.self, "_fire_count") ==
      VInt(iv(S_.old.f(S_.a.self, "_fire_count")) + 1))
c.ens("last-fire-recorded", lambda S_: S_.f(S_.a.self, "_last_fire") == S_.a.ts)
c.modifies = lambda S_: [("field", S_.a.self, "_fire_count"), ("field", S_.a.self, "_last_fire")]

# ---------------------------------------------------------------- LocationAction.record_triggered
c = contract(TRIGGER, "LocationAction.record_triggered", ["C04"])
c.param("self", OBJ("LocationAction")).param("ts", INT)
c.req("ts-positive", lambda S_: iv(S_.a.ts) > 0)
c.result = NONE


def _stats(S_, h):
    return h.f(S_.a.self, "LocationAction.__stats")


c.ens("count-incremented", lambda S_: S_.f(_stats(S_, S_.old), "_fire_count") ==
      VInt(iv(S_.old.f(_stats(S_, S_.old), "_fire_count")) + 1))
c.ens("last-fire-recorded", lambda S_: S_.f(_stats(S_, S_.old), "_last_fire") == S_.a.ts)
c.modifies = lambda S_: [("field", _stats(S_, S_.old), "_fire_count"), ("field", _stats(S_, S_.old), "_last_fire")]

# ---------------------------------------------------------------- LocationAction.can_trigger
c = contract(TRIGGER, "LocationAction.can_trigger", ["C04", "C10"])
c.param("self", OBJ("LocationAction")).param("ts", INT)
c.req("ts-positive", lambda S_: iv(S_.a.ts) > 0)
c.result = BOOL
c.inline = [TRIGGER + ":LocationAction.fire_count", TRIGGER + ":LocationAction.fire_period",
            TRIGGER + ":LocationAction.__get_int", TRIGGER + ":LocationAction.__fire_period_ns"]
# both directions: never more than allowed, and when the limits allow it a hit does collect
c.ens("limits-spec", lambda S_: bv(S_.result) == spec_limits_ok(S_.old, S_.a.self, iv(S_.a.ts)))
c.modifies = lambda S_: []
