"""C20 plugins optional/isolated (span part, snapshot decoration, lifecycle hooks)."""
from .common import *
from pyvc.core import SymCallable, LogEntry

SP = "processor/context/span_action.py"
SA = "processor/context/snapshot_action.py"


def plugin_method(label):
    """A plugin callback: runs host (plugin) code, may raise any Exception, returns some host value."""
    def spec(it, sc, args, kwargs, node, anchor):
        it.st.log.append(LogEntry(label, list(args), kwargs, None, anchor))
        if it.ctx.branch(z3.Bool("%s_raises!%d" % (label, len(it.st.log))), label + " raises"):
            it.st.log[-1].raised = True
            it.raise_symbolic(anchor, "Exception", label)
        res = it.ctx.fresh(label + "_res", Val)
        it.assume_shape(res, ANY)
        it.st.log[-1].result = res
        return res
    return spec


# host plugin objects: their callbacks are reached through host attribute access; give the ones the agent calls a
# fixed meaning (trusted interface of api/plugin/*: create_span, close, decorate, resource, shutdown, log_tracepoint)
PLUGIN_CALLBACKS = ["create_span", "close", "decorate", "resource", "shutdown", "log_tracepoint", "order", "is_active"]


def install_plugin_callbacks(S_):
    S_.I.st.ghost["host_methods"] = {nm: SymCallable(nm, plugin_method(nm)) for nm in PLUGIN_CALLBACKS}


# ---------------------------------------------------------------- SpanActionContext._process_action
c = contract(SP, "SpanActionContext._process_action", ["C20", "C15"])
c.param("self", OBJ("SpanActionContext"))
c.init_ghost = install_plugin_callbacks
c.result = VAL
c.host_ops_exc_base = "Exception"
c.logged = "_process_action"
c.modifies = lambda S_: [("all",)]
c.sig_props = ["C20"]


def _span_body(L):
    cs = [e for e in L.iter_log() if e.label == "create_span"]
    return [("span-requested-once-from-this-processor", And(z3.BoolVal(len(cs) == 1),
             cs[0].args[0] == L.seq.element(L.index) if cs else z3.BoolVal(False)))]


c.loop("iter:self.trigger_context.config.span_processors", body_ensures=_span_body, body_no_raise=True, modifies=lambda L: [("all",)])

# ---------------------------------------------------------------- SpanActionCallback.process
c = contract(SP, "SpanActionCallback.process", ["C20", "C15"])
c.param("self", OBJ("SpanActionCallback", inv=False)).param("ctx", VAL).param("event", STR).param("frame", FRAME()).param("arg", ANY)
c.req("spans-are-plugin-spans", lambda S_: And(
    S_.I.assume_shape(S_.old.f(S_.a.self, "SpanActionCallback.__spans"), LIST(HOSTOBJ)) or z3.BoolVal(True),
    S_.elems(S_.old.f(S_.a.self, "SpanActionCallback.__spans"), HOSTOBJ)))
c.init_ghost = install_plugin_callbacks
c.result = VAL
c.host_ops_exc_base = "Exception"
c.logged = "SpanActionCallback.process"
c.modifies = lambda S_: [("all",)]
c.sig_props = ["C20", "C15"]


def _close_body(L):
    cs = [e for e in L.iter_log() if e.label == "close"]
    return [("every-span-closed-exactly-once", And(z3.BoolVal(len(cs) == 1),
             cs[0].args[0] == L.seq.element(L.index) if cs else z3.BoolVal(False)))]


c.loop("iter:self.__spans", body_ensures=_close_body, body_no_raise=True, modifies=lambda L: [("all",)])
