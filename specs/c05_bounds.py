"""C05 Collection is bounded and spends its budget breadth-first."""
from .common import *
from pyvc.core import ALLOC_BASE, SymCallable, LogEntry, tkey

VP = "processor/variable_processor.py"
VSP = "processor/variable_set_processor.py"
BFS = "processor/bfs/__init__.py"


@class_invariant("VariableProcessorConfig")
def inv_vpc(S_, c):
    h = S_.new
    return And(*[Val.is_VInt(h.f(c, f)) for f in ("max_string_length", "max_variables", "max_collection_size",
                                                  "max_var_depth")])


@class_invariant("VariableCacheProvider")
def inv_cache(S_, c):
    h = S_.new
    d = h.f(c, "VariableCacheProvider.__cache")
    k = z3.Const("k!cache", Val)
    # identity-string -> id-string map
    return And(S_.pre(d, "dict"), h.dlen(d) >= 0,
               z3.ForAll([k], Implies(h.dhas(d, k), Val.is_VStr(h.dget(d, k)))))


@class_invariant("VariableSetProcessor")
def inv_vsp(S_, p):
    h = S_.new
    return And(S_.pre(h.f(p, "VariableSetProcessor.__var_lookup"), "dict"),
               S_.pre(h.f(p, "VariableSetProcessor.__var_cache"), "VariableCacheProvider"),
               inv_cache(S_, h.f(p, "VariableSetProcessor.__var_cache")),
               # the identity cache and the variable table are different dictionaries
               h.f(h.f(p, "VariableSetProcessor.__var_cache"), "VariableCacheProvider.__cache")
               != h.f(p, "VariableSetProcessor.__var_lookup"),
               S_.pre(h.f(p, "VariableSetProcessor.__config"), "VariableProcessorConfig"),
               inv_vpc(S_, h.f(p, "VariableSetProcessor.__config")))


def cfg_of(h, p, name):
    return iv(h.f(h.f(p, "VariableSetProcessor.__config"), name))


# ---------------------------------------------------------------- truncate_string
c = contract(VP, "truncate_string", ["C05"])
c.param("string", STR).param("max_length", INT)
c.req("limit-not-negative", lambda S_: iv(S_.a.max_length) >= 0)
c.result = TUPLE(STR, BOOL)


def _trunc_post(S_):
    s, n = sv(S_.a.string), iv(S_.a.max_length)
    r, flag = sv(S_.new.lget(S_.result, 0)), bv(S_.new.lget(S_.result, 1))
    L = z3.Length(s)
    return And(z3.Length(r) <= n, r == z3.SubString(s, 0, If(L < n, L, n)),
               flag == (L > n), flag == (r != s))


c.ens("cut-to-limit-and-flag-exactly-when-cut", _trunc_post)
c.modifies = lambda S_: []

# ---------------------------------------------------------------- process_list_breadth_first
c = contract(VP, "process_list_breadth_first", ["C05", "C02"])
c.param("var_collector", OBJ("VariableSetProcessor")).param("parent_node", VAL).param("value", SEQ())
c.result = FRESH("list")
c.modifies = lambda S_: []


def _cap(h, p):
    m = cfg_of(h, p, "max_collection_size")
    return If(m < 0, 0, m)


def _plbf_post(S_):
    """At most max_collection_size children, the first ones, in order: child k is element k named str(k)."""
    h, n = S_.old, S_.new
    r = S_.result
    ln = h.llen(S_.a.value)
    cap = _cap(h, S_.a.var_collector)
    k = z3.Int("k!plbf")
    node = n.lget(r, k)
    nv = n.f(node, "_value")
    return And(n.llen(r) == If(ln < cap, ln, cap),
               z3.ForAll([k], Implies(And(k >= 0, k < n.llen(r)), And(
                   S_.created_during_call(node), S_.isinst(node, "Node"), n.f(node, "_parent") == S_.a.parent_node, n.f(node, "_depth") == VInt(0),
                   S_.isinst(nv, "NodeValue"), n.f(nv, "value") == h.lget(S_.a.value, k),
                   n.f(nv, "name") == Val.VStr(StrOf(Val.VInt(k))), Val.is_VNone(n.f(nv, "original_name"))))))


c.ens("capped-prefix-in-order", _plbf_post)


def _plbf_inv(L):
    h = L.now()
    nodes, total = L.local("nodes"), L.local("total")
    pc = L.local("var_collector")
    cap = _cap(L.at_entry(), pc)
    k = z3.Int("k!inv")
    node = h.lget(nodes, k)
    nv = h.f(node, "_value")
    cidn, cidv = L.cid("Node"), L.cid("NodeValue")
    return And(nodes == L.pre_local("nodes"), Val.is_VInt(total), iv(total) == L.index, h.llen(nodes) == L.index,
               L.index <= cap,
               z3.ForAll([k], Implies(And(k >= 0, k < L.index), And(
                   L.allocated(node), Val.r(node) >= L.pre.next_id, h.typeof(node) == cidn, h.f(node, "_parent") == L.local("parent_node"),
                   h.f(node, "_depth") == VInt(0), L.allocated(nv), h.typeof(nv) == cidv,
                   h.f(nv, "value") == L.seq.element(k), h.f(nv, "name") == Val.VStr(StrOf(Val.VInt(k))),
                   Val.is_VNone(h.f(nv, "original_name"))))))


c.loop("iter:tuple(value)", invariant=_plbf_inv, modifies=lambda L: [("list", L.local("nodes"))])


# =============================================================================== breadth_first_search
def _consumer(it, sc, args, kwargs, node, anchor):
    """The search consumer (VariableSetProcessor.search_function by its contract): may add children to the node
    it is given, record variables, and says whether to go on.  It never fails (C06, proved on search_function)."""
    res = it.ctx.fresh("go_on", B)
    it.st.log.append(LogEntry("consumer", list(args), kwargs, Val.VBool(res), anchor))
    popped = args[0]
    ch = it.st.get_field(Val.r(popped), "_children")
    q = it.frame.locals.get("queue")
    if q is not None:
        it.ctx.assume(ch != q)      # the work list is a local of the search: no node's children list is it
    # the consumer may extend the children list of the node it was given (nothing else the search reads)
    it.apply_havoc([("list", ch)])
    it.ctx.assume(z3.Select(it.st.llen, Val.r(ch)) >= 0)
    return Val.VBool(res)


c = contract(BFS, "breadth_first_search", ["C05", "C07"])
c.param("node", OBJ("Node")).param("consumer", CALLABLE(_consumer))
c.result = NONE
c.modifies = lambda S_: [("all",)]


def _bfs_inv(L):
    h = L.now()
    q = L.local("queue")
    L.I.st.ghost.setdefault("elem_sorts", {})[tkey(q)] = OBJ("Node")     # the work list holds Nodes
    return And(q == L.pre_local("queue"), h.llen(q) >= 0)


def _bfs_body(L):
    """FIFO work list: the node handed to the consumer is the OLDEST queued node, and (when the search goes
    on) the new queue is the rest of the old one followed by that node's children in order.  With children one
    level below their parent (Node.add_children) this is breadth-first order: everything at one depth is
    visited before anything deeper."""
    h0, h1 = L.at_iteration_start(), L.now()
    q = L.local("queue")
    calls = [e for e in L.iter_log() if e.label == "consumer"]
    if len(calls) != 1:
        return [("one-node-per-step", z3.BoolVal(False))]
    popped = calls[0].args[0]
    n0 = h0.llen(q)
    ch = h1.f(popped, "_children")
    k = z3.Int("k!bfs")
    m = h1.llen(ch)
    return [("oldest-node-first", popped == h0.lget(q, 0)),
            ("rest-then-children-in-order", And(
                h1.llen(q) == n0 - 1 + m,
                z3.ForAll([k], Implies(And(k >= 0, k < n0 - 1), h1.lget(q, k) == h0.lget(q, k + 1))),
                z3.ForAll([k], Implies(And(k >= 0, k < m), h1.lget(q, n0 - 1 + k) == h1.lget(ch, k)))))]


c.loop("while:len(queue) != 0", invariant=_bfs_inv, body_ensures=_bfs_body,
       modifies=lambda L: [("list", L.local("queue"))])
