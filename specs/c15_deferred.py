"""C15 Deferred work (spans, captures): per-thread store, callback contexts, callback processing."""
from .common import *
from pyvc.core import SymCallable, LogEntry, ALLOC_BASE, tkey

TL = "thread_local.py"
CB = "processor/context/callback_context.py"
TH = "processor/trigger_handler.py"

IDENT = Val.VInt(z3.Int("thread_ident"))      # ident of the calling thread (see lib.b_threading_current_thread)


def tl_store(h, tl):
    """The per-instance map thread-ident -> value of a ThreadLocal."""
    return h.f(tl, "ThreadLocal.__store")


@class_invariant("ThreadLocal")
def inv_threadlocal(S_, tl):
    h = S_.new
    return And(S_.pre(tl_store(h, tl), "dict"), h.dlen(tl_store(h, tl)) >= 0,
               Val.is_VRef(h.f(tl, "ThreadLocal.__default_provider")))


def _provider(S_):
    """The default provider is an arbitrary callable: it returns some value and may raise (host-supplied)."""
    tl = S_.a.self
    term = S_.new.f(tl, "ThreadLocal.__default_provider")

    def spec(it, sc, args, kwargs, node, anchor):
        res = it.ctx.fresh("provided", Val)
        it.st.log.append(LogEntry("default_provider", list(args), kwargs, res, anchor))
        return res
    S_.I.st.ghost.setdefault("sym_callables", {})[tkey(term)] = SymCallable("default_provider", spec)


def others_unchanged(S_, store, key):
    """Whole-view postcondition: every other thread's entry is untouched (quantifier-free: the new maps are
    the old maps updated at `key` only)."""
    return And(
        S_.new.dhas_arr(store) == z3.Store(S_.old.dhas_arr(store), key, S_.new.dhas(store, key)),
        S_.new.dval_arr(store) == z3.Store(S_.old.dval_arr(store), key, S_.new.dget(store, key)))


# ---------------------------------------------------------------- ThreadLocal.__init__
c = contract(TL, "ThreadLocal.__init__", ["C15"])
c.param("self", OBJ("ThreadLocal", inv=False)).param("default_provider", VAL)
c.result = NONE
c.ens("own-empty-store", lambda S_: And(S_.is_fresh(tl_store(S_.new, S_.a.self), "dict"),
                                        S_.new.dlen(tl_store(S_.new, S_.a.self)) == 0,
                                        Not(S_.new.dhas(tl_store(S_.new, S_.a.self), IDENT))))
c.ens("provider-kept", lambda S_: S_.f(S_.a.self, "ThreadLocal.__default_provider") == S_.a.default_provider)
c.modifies = lambda S_: [("field", S_.a.self, "ThreadLocal.__store"),
                         ("field", S_.a.self, "ThreadLocal.__default_provider")]

# ---------------------------------------------------------------- ThreadLocal.is_set
c = contract(TL, "ThreadLocal.is_set", ["C15", "C01"])
c.param("self", OBJ("ThreadLocal"))
c.result = BOOL
c.ens("set-iff-own-entry", lambda S_: bv(S_.result) == S_.old.dhas(tl_store(S_.old, S_.a.self), IDENT))
c.modifies = lambda S_: []

def _provider_may_raise(S_):
    if S_.at_call and str(z3.simplify(S_.a.self)) in S_.I.st.ghost.get("provider_specs", {}):
        return z3.BoolVal(False)      # the registered provider (lambda: deque()) is total
    return Not(And(S_.old.dhas(tl_store(S_.old, S_.a.self), IDENT),
                   Not(Val.is_VNone(S_.old.dget(tl_store(S_.old, S_.a.self), IDENT)))))


# ---------------------------------------------------------------- ThreadLocal.get
c = contract(TL, "ThreadLocal.get", ["C15", "C01"])
c.param("self", OBJ("ThreadLocal"))
c.init_ghost = _provider
c.result = VAL
c.logged = "ThreadLocal.get"


def _get_post(S_):
    st = tl_store(S_.old, S_.a.self)
    had = And(S_.old.dhas(st, IDENT), Not(Val.is_VNone(S_.old.dget(st, IDENT))))
    extra = z3.BoolVal(True)
    if S_.at_call:
        ps = S_.I.st.ghost.get("provider_specs", {}).get(str(z3.simplify(S_.a.self)))
        if ps is not None:
            extra = Implies(Not(had), ps(S_, S_.result))
    return And(extra, Implies(had, And(S_.result == S_.old.dget(st, IDENT),
                                S_.new.dhas_arr(st) == S_.old.dhas_arr(st), S_.new.dval_arr(st) == S_.old.dval_arr(st))),
               Implies(Not(had), And(S_.new.dhas(st, IDENT), S_.new.dget(st, IDENT) == S_.result,
                                     others_unchanged(S_, st, IDENT))))


c.ens("own-entry-or-default", _get_post)
c.modifies = lambda S_: [("dict", tl_store(S_.old, S_.a.self))]
c.sig("BaseException", "default-provider-raised",
      cond=lambda S_: _provider_may_raise(S_))

# ---------------------------------------------------------------- ThreadLocal.value (getter) / set / clear
c = contract(TL, "ThreadLocal.set", ["C15"])
c.param("self", OBJ("ThreadLocal")).param("val", VAL)
c.result = NONE
c.ens("own-entry-set", lambda S_: And(S_.new.dhas(tl_store(S_.old, S_.a.self), IDENT),
                                      S_.new.dget(tl_store(S_.old, S_.a.self), IDENT) == S_.a.val,
                                      others_unchanged(S_, tl_store(S_.old, S_.a.self), IDENT)))
c.modifies = lambda S_: [("dict", tl_store(S_.old, S_.a.self))]

c = contract(TL, "ThreadLocal.clear", ["C15", "C01"])
c.param("self", OBJ("ThreadLocal"))
c.result = NONE
c.ens("own-entry-removed", lambda S_: And(Not(S_.new.dhas(tl_store(S_.old, S_.a.self), IDENT)),
                                          others_unchanged(S_, tl_store(S_.old, S_.a.self), IDENT)))
c.modifies = lambda S_: [("dict", tl_store(S_.old, S_.a.self))]


# =============================================================================== CallbackContext
@class_invariant("CallbackContext")
def inv_callback_context(S_, cb):
    h = S_.new
    fn = h.f(cb, "CallbackContext.__function_name")
    return And(Val.is_VStr(h.f(cb, "CallbackContext.__event")), Val.is_VStr(h.f(cb, "CallbackContext.__filename")),
               Or(Val.is_VStr(fn), Val.is_VNone(fn)),
               S_.pre(h.f(cb, "CallbackContext.__callbacks"), "list"),
               h.llen(h.f(cb, "CallbackContext.__callbacks")) >= 0)


def ev_in(event, names):
    return Or(*[event == VStr(n) for n in names])


def spec_cb_matches(h, cb, event, file, fname):
    """What the code can decide from what a CallbackContext records (file, function, opening event)."""
    opened_by_line = h.f(cb, "CallbackContext.__event") == VStr("line")
    return And(file == h.f(cb, "CallbackContext.__filename"), fname == h.f(cb, "CallbackContext.__function_name"),
               Or(opened_by_line, ev_in(event, ["exception", "return"])))


c = contract(CB, "CallbackContext.at_location", ["C15"])
c.param("self", OBJ("CallbackContext")).param("event", STR).param("file", STR).param("line", INT)
c.param("function_name", OPT(STR)).param("frame", FRAME())
c.req("only-line-return-exception", lambda S_: ev_in(S_.a.event, ["line", "return", "exception"]))
c.result = BOOL
c.ens("file-function-event-table", lambda S_: bv(S_.result) == spec_cb_matches(
    S_.old, S_.a.self, S_.a.event, S_.a.file, S_.a.function_name))
# statement: "not after the function invocation that opened it has returned", "under recursion":
# the context must only match events of the very invocation (frame) that opened it ($frame is a ghost field)
c.ens("same-invocation", lambda S_: Implies(bv(S_.result), S_.a.frame == S_.old.f(S_.a.self, "$frame")))
c.modifies = lambda S_: []

# CallbackContext.process: runs the deferred callbacks (host plugins may fail inside: see C20)
c = contract(CB, "CallbackContext.process", [], coarse=True)
c.param("self", OBJ("CallbackContext")).param("ctx", VAL).param("event", STR).param("frame", FRAME()).param("arg", ANY)
c.result = VAL
c.logged = "CallbackContext.process"
c.modifies = lambda S_: [("all",)]
c.sig("BaseException", "a-callback-failed")
