"""C15 Deferred work (spans, captures): per-thread store, callback contexts, callback processing."""
from .common import *
from pyvc.core import SymCallable, LogEntry, ALLOC_BASE

TL = "thread_local.py"
CB = "processor/context/callback_context.py"
TH = "processor/trigger_handler.py"

IDENT = Val.VInt(z3.Int("thread_ident"))      # ident of the calling thread (see lib.b_threading_current_thread)


def tl_store(h, tl):
    """The per-instance map thread-ident -> value of a ThreadLocal."""
    return h.f(tl, "ThreadLocal.__store")


@class_invariant("ThreadLocal")
def inv_threadlocal(S_, tl):
    h = S_.new
    return And(S_.pre(tl_store(h, tl), "dict"), h.dlen(tl_store(h, tl)) >= 0,
               Val.is_VRef(h.f(tl, "ThreadLocal.__default_provider")))


def _provider(S_):
    """The default provider is an arbitrary callable: it returns some value and may raise (host-supplied)."""
    tl = S_.a.self
    term = S_.new.f(tl, "ThreadLocal.__default_provider")

    def spec(it, sc, args, kwargs, node, anchor):
        res = it.ctx.fresh("provided", Val)
        it.st.log.append(LogEntry("default_provider", list(args), kwargs, res, anchor))
        return res
    S_.I.st.ghost.setdefault("sym_callables", {})[str(z3.simplify(term))] = SymCallable("default_provider", spec)


def others_unchanged(S_, store, key):
    """Whole-view postcondition: every other thread's entry is untouched."""
    k = z3.Const("k!tl", Val)
    return And(
        z3.ForAll([k], Implies(k != key, And(S_.new.dhas(store, k) == S_.old.dhas(store, k),
                                             S_.new.dget(store, k) == S_.old.dget(store, k)))))


# ---------------------------------------------------------------- ThreadLocal.__init__
c = contract(TL, "ThreadLocal.__init__", ["C15"])
c.param("self", OBJ("ThreadLocal", inv=False)).param("default_provider", VAL)
c.result = NONE
c.ens("own-empty-store", lambda S_: And(S_.is_fresh(tl_store(S_.new, S_.a.self), "dict"),
                                        S_.new.dlen(tl_store(S_.new, S_.a.self)) == 0,
                                        Not(S_.new.dhas(tl_store(S_.new, S_.a.self), IDENT))))
c.ens("provider-kept", lambda S_: S_.f(S_.a.self, "ThreadLocal.__default_provider") == S_.a.default_provider)
c.modifies = lambda S_: [("field", S_.a.self, "ThreadLocal.__store"),
                         ("field", S_.a.self, "ThreadLocal.__default_provider")]

# ---------------------------------------------------------------- ThreadLocal.is_set
c = contract(TL, "ThreadLocal.is_set", ["C15", "C01"])
c.param("self", OBJ("ThreadLocal"))
c.result = BOOL
c.ens("set-iff-own-entry", lambda S_: bv(S_.result) == S_.old.dhas(tl_store(S_.old, S_.a.self), IDENT))
c.modifies = lambda S_: []

# ---------------------------------------------------------------- ThreadLocal.get
c = contract(TL, "ThreadLocal.get", ["C15", "C01"])
c.param("self", OBJ("ThreadLocal"))
c.init_ghost = _provider
c.result = VAL
c.logged = "ThreadLocal.get"


def _get_post(S_):
    st = tl_store(S_.old, S_.a.self)
    had = And(S_.old.dhas(st, IDENT), Not(Val.is_VNone(S_.old.dget(st, IDENT))))
    return And(Implies(had, And(S_.result == S_.old.dget(st, IDENT),
                                S_.new.dhas_arr(st) == S_.old.dhas_arr(st), S_.new.dval_arr(st) == S_.old.dval_arr(st))),
               Implies(Not(had), And(S_.new.dhas(st, IDENT), S_.new.dget(st, IDENT) == S_.result,
                                     others_unchanged(S_, st, IDENT))))


c.ens("own-entry-or-default", _get_post)
c.modifies = lambda S_: [("dict", tl_store(S_.old, S_.a.self))]
c.sig("BaseException", "default-provider-raised")

# ---------------------------------------------------------------- ThreadLocal.value (getter) / set / clear
c = contract(TL, "ThreadLocal.set", ["C15"])
c.param("self", OBJ("ThreadLocal")).param("val", VAL)
c.result = NONE
c.ens("own-entry-set", lambda S_: And(S_.new.dhas(tl_store(S_.old, S_.a.self), IDENT),
                                      S_.new.dget(tl_store(S_.old, S_.a.self), IDENT) == S_.a.val,
                                      others_unchanged(S_, tl_store(S_.old, S_.a.self), IDENT)))
c.modifies = lambda S_: [("dict", tl_store(S_.old, S_.a.self))]

c = contract(TL, "ThreadLocal.clear", ["C15", "C01"])
c.param("self", OBJ("ThreadLocal"))
c.result = NONE
c.ens("own-entry-removed", lambda S_: And(Not(S_.new.dhas(tl_store(S_.old, S_.a.self), IDENT)),
                                          others_unchanged(S_, tl_store(S_.old, S_.a.self), IDENT)))
c.modifies = lambda S_: [("dict", tl_store(S_.old, S_.a.self))]
