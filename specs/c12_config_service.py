"""C12 convergence to the latest configuration / C13 registration handles (TracepointConfigService)."""
from .common import *
from pyvc.core import LogEntry, SymCallable, BoundMethod

TCS = "config/tracepoint_config.py"


@class_invariant("TracepointConfigService")
def inv_tcs(S_, s):
    h = S_.new
    th = h.f(s, "_task_handler")
    return And(S_.pre(h.f(s, "_custom"), "list"), h.llen(h.f(s, "_custom")) >= 0, S_.elems(h.f(s, "_custom"), OBJ("Trigger")),
               S_.pre(h.f(s, "_custom_handles"), "dict"), h.dlen(h.f(s, "_custom_handles")) >= 0,
               S_.dict_values(h.f(s, "_custom_handles"), OBJ("Trigger")),
               S_.pre(h.f(s, "_tracepoint_config"), "list"), h.llen(h.f(s, "_tracepoint_config")) >= 0,
               S_.pre(h.f(s, "_listeners"), "list"), h.llen(h.f(s, "_listeners")) >= 0, S_.elems(h.f(s, "_listeners"), HOSTOBJ),
               Or(Val.is_VNone(th), And(S_.pre(th, "TaskHandler"), h.f(th, "_pending") != h.f(s, "_custom_handles"))),
               h.f(s, "_custom") != h.f(s, "_tracepoint_config"), h.f(s, "_custom") != h.f(s, "_listeners"))


STATE = ["_custom", "_custom_handles", "_tracepoint_config", "_current_hash", "_last_update", "_task_handler", "_listeners"]


def unchanged(S_, fields):
    return And(*[S_.f(S_.a.self, f) == S_.old.f(S_.a.self, f) for f in fields])


# ---------------------------------------------------------------- update_no_change
c = contract(TCS, "TracepointConfigService.update_no_change", ["C12"])
c.param("self", OBJ("TracepointConfigService")).param("ts", VAL)
c.result = NONE
c.logged = "update_no_change"
c.modifies = lambda S_: [("field", S_.a.self, "_last_update")]
c.ens("a-no-change-answer-alters-nothing-else", lambda S_: And(S_.f(S_.a.self, "_last_update") == S_.a.ts,
                                                              unchanged(S_, [f for f in STATE if f != "_last_update"])))

# ---------------------------------------------------------------- update_new_config
c = contract(TCS, "TracepointConfigService.update_new_config", ["C12"])
c.param("self", OBJ("TracepointConfigService")).param("ts", VAL).param("new_hash", VAL).param("new_config", LIST(OBJ("Trigger")))
c.result = NONE
c.logged = "update_new_config"
c.modifies = lambda S_: [("all",)]
c.protects = lambda S_: {"fields": STATE, "lists": [S_.old.f(S_.a.self, "_custom"), S_.a.new_config], "dicts": []}
c.sig("IllegalStateException", "task-handler-closed")
c.ens("hash-and-configuration-replaced-together", lambda S_: And(
    S_.f(S_.a.self, "_current_hash") == S_.a.new_hash, S_.f(S_.a.self, "_tracepoint_config") == S_.a.new_config,
    S_.f(S_.a.self, "_last_update") == S_.a.ts), props=["C12"])


def _unc_log(S_, kind):
    """exactly one listener update is queued, carrying the new hash and the new configuration (and the old ones)."""
    subs = S_.calls("submit_task")
    has_th = Not(Val.is_VNone(S_.old.f(S_.a.self, "_task_handler")))
    if not subs:
        return [("update-queued-when-a-task-handler-exists", "LOG", Not(has_th), None)]
    e = subs[0]
    a = e.args[2]
    n = S_.new
    ob = S_.I.pyobj(e.args[1])
    is_ul = getattr(getattr(getattr(ob, "func", None), "fi", None), "name", None) == "update_listeners" and ob.self_term.eq(S_.a.self)
    return [("one-listener-update-with-the-new-hash-and-configuration", "LOG", And(
        z3.BoolVal(len(subs) == 1 and bool(is_ul)), has_th, n.llen(a) == 5, n.lget(a, 0) == S_.a.ts,
        n.lget(a, 1) == S_.old.f(S_.a.self, "_current_hash"), n.lget(a, 2) == S_.a.new_hash,
        n.lget(a, 3) == S_.old.f(S_.a.self, "_tracepoint_config"), n.lget(a, 4) == S_.a.new_config), None)]


c.exit_check(_unc_log)

# ---------------------------------------------------------------- update_listeners
def _listener_method(it, sc, args, kwargs, node, anchor):
    it.st.log.append(LogEntry("config_change", list(args), kwargs, None, anchor))
    if it.ctx.branch(z3.Bool("listener_raises!%d" % len(it.st.log)), "listener raises"):
        it.raise_symbolic(anchor, "Exception", "listener")
    return VNone


c = contract(TCS, "TracepointConfigService.update_listeners", ["C12", "C13"])
c.param("self", OBJ("TracepointConfigService")).param("ts", VAL).param("old_hash", VAL).param("current_hash", VAL)
c.param("old_config", VAL).param("new_config", LIST(OBJ("Trigger")))
c.init_ghost = lambda S_: S_.I.st.ghost.setdefault("host_methods", {}).update(
    {"config_change": SymCallable("config_change", _listener_method)})
c.result = NONE
c.logged = "update_listeners"
c.modifies = lambda S_: [("all",)]
c.protects = lambda S_: {"fields": STATE, "lists": [S_.old.f(S_.a.self, "_custom"), S_.a.new_config,
                                                    S_.old.f(S_.a.self, "_listeners")], "dicts": []}


def _ul_body(L):
    """every listener receives the polled configuration followed by the tracepoints registered in code
    (alongside, not instead of); a failing listener does not stop the others."""
    cs = [e for e in L.iter_log() if e.label == "config_change"]
    if len(cs) != 1:
        return [("listener-notified-once", z3.BoolVal(False))]
    e = cs[0]
    h = L.now()
    installed = e.args[5]
    new_cfg, custom = L.local("new_config"), h.f(L.local("self"), "_custom")
    n1, n2 = h.llen(new_cfg), h.llen(custom)
    k = z3.Int("k!ul")
    return [("listener-notified-once", e.args[0] == L.seq.element(L.index)),
            ("service-tracepoints-then-code-registered-ones", And(
                h.llen(installed) == n1 + n2,
                z3.ForAll([k], Implies(And(k >= 0, k < n1), h.lget(installed, k) == h.lget(new_cfg, k))),
                z3.ForAll([k], Implies(And(k >= 0, k < n2), h.lget(installed, n1 + k) == h.lget(custom, k))))),
            ("hash-and-times-passed-on", And(e.args[1] == L.local("ts"), e.args[3] == L.local("current_hash")))]


c.loop("iter:listeners_copy", body_ensures=_ul_body, body_no_raise=True, modifies=lambda L: [("all",)])

# ---------------------------------------------------------------- add_custom / remove_custom
c = contract(TCS, "TracepointConfigService.add_custom", ["C13", "C11"])
c.param("self", OBJ("TracepointConfigService")).param("path", STR).param("line", INT).param("args", DICT())
c.param("watches", LIST()).param("metrics", OPT(LIST()))
c.req("args-are-text", lambda S_: __import__("specs.c11_config_table", fromlist=["x"]).args_are_text(S_.old, S_.a.args))
c.result = VAL
c.logged = "add_custom"
c.modifies = lambda S_: [("all",)]
c.protects = lambda S_: {"fields": STATE, "lists": [S_.old.f(S_.a.self, "_tracepoint_config")], "dicts": []}
c.sig("IllegalStateException", "task-handler-closed")


def _add_log(S_, kind):
    bt = S_.calls("build_trigger")
    if kind != "return":
        return []
    if len(bt) != 1:
        return [("built-once", "LOG", z3.BoolVal(False), None)]
    b = bt[0]
    h, n = S_.old, S_.new
    cust = h.f(S_.a.self, "_custom")
    cust1 = n.f(S_.a.self, "_custom")
    out = [("built-from-the-given-arguments", "LOG", And(b.args[1] == S_.a.path, b.args[2] == S_.a.line, b.args[3] == S_.a.args,
                                                         b.args[4] == S_.a.watches, b.args[5] == S_.a.metrics), None),
           # the handle is the registration's own fresh identifier, never something two registrations can share
           ("handle-is-this-registrations-own-id", "POST", Implies(Not(Val.is_VNone(b.result)), S_.result == b.args[0]), ["C13"]),
           ("registration-appended", "POST", Implies(Not(Val.is_VNone(b.result)), And(
               n.llen(cust1) == h.llen(cust) + 1, n.lget(cust1, h.llen(cust)) == b.result)), ["C13"]),
           ("uninterpretable-registration-installs-nothing", "POST", Implies(Val.is_VNone(b.result), And(
               n.llen(cust1) == h.llen(cust), n.larr(cust1) == h.larr(cust))), ["C11", "C13"])]
    return out


c.exit_check(_add_log)

c = contract(TCS, "TracepointConfigService.remove_custom", ["C13"])
c.param("self", OBJ("TracepointConfigService")).param("_id", VAL)
c.result = NONE
c.logged = "remove_custom"
c.modifies = lambda S_: [("all",)]
c.protects = lambda S_: {"fields": STATE, "lists": [S_.old.f(S_.a.self, "_tracepoint_config")], "dicts": []}
c.sig("IllegalStateException", "task-handler-closed")


def _rm_post(S_):
    """removes the registration this handle was returned for - and only that one; an unknown (or already used)
    handle changes nothing; the service's configuration is untouched.  (The custom list may be updated in place or
    replaced: the clause is about the list the service holds afterwards.)"""
    h, n = S_.old, S_.new
    cust, handles = h.f(S_.a.self, "_custom"), h.f(S_.a.self, "_custom_handles")
    cust1 = n.f(S_.a.self, "_custom")
    known = h.dhas(handles, S_.a._id)
    target = h.dget(handles, S_.a._id)
    k, j = z3.Int("k!rm"), z3.Int("j!rm")
    n0 = h.llen(cust)
    same = And(n.llen(cust1) == n0, z3.ForAll([j], Implies(And(j >= 0, j < n0), n.lget(cust1, j) == h.lget(cust, j))))
    return And(
        Not(n.dhas(n.f(S_.a.self, "_custom_handles"), S_.a._id)),
        n.f(S_.a.self, "_tracepoint_config") == h.f(S_.a.self, "_tracepoint_config"),
        Implies(Not(known), same),
        Implies(known, Or(
            # present: exactly one element - the target - is removed, the others keep their order
            z3.Exists([k], And(k >= 0, k < n0, h.lget(cust, k) == target, n.llen(cust1) == n0 - 1,
                               z3.ForAll([j], And(
                                   Implies(And(j >= 0, j < k), n.lget(cust1, j) == h.lget(cust, j)),
                                   Implies(And(j >= k, j < n0 - 1), n.lget(cust1, j) == h.lget(cust, j + 1)))))),
            same)))


c.ens("removes-exactly-the-registration-of-this-handle", _rm_post)
c.loop("iter:enumerate(self._custom)", invariant=lambda L: z3.BoolVal(True), modifies_kind="none")


# =============================================================================== LongPoll.poll
from pyvc.contract import extern
PL = "poll/poll.py"


@extern("deepproto.proto.poll.v1.poll_pb2_grpc.PollConfigStub", "gRPC stub bound to a channel")
def _poll_stub(it, args, kwargs, node, anchor):
    return VRef(it.st.alloc(it.table.id("proto")))


@extern("deepproto.proto.poll.v1.poll_pb2.PollRequest", "protobuf record constructor (field = keyword)")
def _poll_request(it, args, kwargs, node, anchor):
    rid = it.st.alloc(it.table.id("proto"))
    for k, v in kwargs.items():
        it.st.set_field(z3.IntVal(rid), k, v)
        it.st.writes.pop()
    it.st.log.append(LogEntry("PollRequest", [], dict(kwargs), VRef(rid), anchor))
    return VRef(rid)


@extern("proto.poll", "PollConfigStub.poll: one network request; may fail; returns a PollResponse record")
def _stub_poll(it, args, kwargs, node, anchor):
    it.st.log.append(LogEntry("stub.poll", list(args), dict(kwargs), None, anchor))
    if it.ctx.branch(z3.Bool("poll_fails!%d" % len(it.st.log)), "poll fails"):
        it.raise_symbolic(anchor, "Exception", "poll-failed")
    res = VRef(it.st.alloc(it.table.id("proto")))
    it.st.log[-1].result = res
    return res


for _nm, _lab in (("convert_resource", "convert_resource"),):
    c = contract("grpc/__init__.py", _nm, [], coarse=True)
    c.param("resource", VAL)
    c.result = FRESH("proto")
    c.logged = _lab
    c.modifies = lambda S_: []
    c.sig("Exception", "resource-cannot-be-converted")

c = contract(PL, "LongPoll.poll", ["C12", "C08"])
c.param("self", OBJ("LongPoll"))
c.req("grpc", lambda S_: S_.I.assume_shape(S_.old.f(S_.a.self, "grpc"), OBJ("GRPCService", inv=False)) or z3.BoolVal(True))
c.init_ghost = lambda S_: S_.I.st.ghost.setdefault("config_types", {}).update({"resource": OBJ("Resource")})
c.result = NONE
c.host_ops_exc_base = "Exception"
c.modifies = lambda S_: [("all",)]
# (not `_tracepoint_config`: the heap is indexed by field name, and the configuration service's own field of that name is
# exactly what update_new_config replaces)
c.protects = lambda S_: {"fields": ["config", "grpc", "timer", "channel"], "lists": [], "dicts": []}
# a failed or unintelligible poll raises (the timer loop logs it and polls again) ...
c.sig("Exception", "poll-failed")
c.sig("IllegalStateException", "update-refused-because-the-agent-is-shutting-down")


def _poll_log(S_, kind):
    """... but only BEFORE any configuration state is touched: the last good configuration stays in force.
    The request carries the current hash and the auth metadata; NO_CHANGE alters nothing; an update installs
    the converted response under the response's hash."""
    polls = S_.calls("stub.poll")
    reqs = S_.calls("PollRequest")
    nochg, upd = S_.calls("update_no_change"), S_.calls("update_new_config")
    conv = S_.calls("convert_response")
    meta = S_.calls("grpc.metadata")
    out = []
    if kind == "raise":
        # whatever failed, no state update was started before it... except the update itself failing (closed task handler)
        out.append(("failure-leaves-the-last-good-configuration", "LOG",
                    z3.BoolVal(len(nochg) == 0 and (len(upd) == 0 or upd[-1].raised)), None))
        return out
    if kind != "return":
        return []
    out.append(("one-request-one-state-change", "LOG", z3.BoolVal(len(polls) == 1 and len(reqs) == 1 and len(nochg) + len(upd) == 1), None))
    if reqs:
        tcs = S_.calls("config_get")
        out.append(("request-carries-current-hash", "LOG", z3.BoolVal("current_hash" in reqs[0].kwargs), None))
    if polls:
        md = polls[0].kwargs.get("metadata")
        out.append(("request-carries-auth-metadata", "LOG", And(z3.BoolVal(md is not None and len(meta) >= 1),
                    md == meta[-1].result if (md is not None and meta) else z3.BoolVal(False)), ["C08", "C12"]))
        resp = polls[0].result
        h = S_.new
        NOCH = Val.VInt(z3.Int("ResponseType_NO_CHANGE"))
        from pyvc.contract import Heap
        # the answer as it was when it was used (the heap at the time of the state-changing call), not after it
        if nochg:
            h = Heap(None, nochg[0].pre) if getattr(nochg[0], "pre", None) is not None else h
            out.append(("no-change-answer", "LOG", And(h.f(resp, "response_type") == NOCH, nochg[0].args[1] == h.f(resp, "ts_nanos")), None))
        if upd and conv:
            hu = Heap(None, upd[0].pre) if getattr(upd[0], "pre", None) is not None else h
            hc = Heap(None, conv[0].pre) if getattr(conv[0], "pre", None) is not None else h
            out.append(("update-installs-the-converted-response-under-its-hash", "LOG", And(
                hc.f(resp, "response_type") != NOCH, upd[0].args[1] == hc.f(resp, "ts_nanos"),
                upd[0].args[2] == hc.f(resp, "current_hash"), upd[0].args[3] == conv[0].result,
                conv[0].args[0] == hc.f(resp, "response")), None))
    return out


c.exit_check(_poll_log)
