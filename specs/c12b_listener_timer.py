"""C12 (second part): the handler's listener installs exactly the configuration it is given; the timer loop survives failures."""
from .common import *
from pyvc.core import LogEntry

TH = "processor/trigger_handler.py"
UT = "utils.py"

# ---------------------------------------------------------------- TracepointHandlerUpdateListener.config_change / new_config
c = contract(TH, "TriggerHandler.new_config", ["C12", "C03"])
c.param("self", OBJ("TriggerHandler")).param("new_config", VAL)
c.result = NONE
c.logged = "new_config"
c.modifies = lambda S_: [("field", S_.a.self, "_tp_config")]
c.ens("the-given-configuration-is-the-one-acted-on", lambda S_: S_.f(S_.a.self, "_tp_config") == S_.a.new_config)

c = contract(TH, "TracepointHandlerUpdateListener.config_change", ["C12", "C13"])
c.param("self", OBJ("TracepointHandlerUpdateListener", inv=False))
c.param("ts", VAL).param("old_hash", VAL).param("current_hash", VAL).param("old_config", VAL).param("new_config", VAL)
c.req("listener-is-attached-to-a-handler", lambda S_: S_.I.assume_shape(S_.old.f(S_.a.self, "_handler"), OBJ("TriggerHandler")) or z3.BoolVal(True))
c.result = NONE
c.modifies = lambda S_: [("field", S_.old.f(S_.a.self, "_handler"), "_tp_config")]
# whatever the time stamps and hashes are: every update handed to the listener is installed - never ignored, never an older one
c.ens("every-update-is-installed", lambda S_: S_.f(S_.old.f(S_.a.self, "_handler"), "_tp_config") == S_.a.new_config)


# ---------------------------------------------------------------- RepeatedTimer._target (the poll loop)
def _timed_function(it, sc, args, kwargs, node, anchor):
    """the repeated function (LongPoll.poll): may fail with any Exception (network, malformed answer)"""
    it.st.log.append(LogEntry("timer.function", list(args), dict(kwargs), None, anchor))
    if it.ctx.branch(z3.Bool("timer_function_raises!%d" % len(it.st.log)), "repeated function raises"):
        it.st.log[-1].raised = True
        it.raise_symbolic(anchor, "Exception", "timer-function")
    return VNone


c = contract(UT, "RepeatedTimer._target", ["C12", "C19"])
c.param("self", OBJ("RepeatedTimer"))
c.req("timer-was-set-up", lambda S_: And(
    S_.I.assume_shape(S_.old.f(S_.a.self, "function"), CALLABLE(_timed_function)) or z3.BoolVal(True),
    S_.I.assume_shape(S_.old.f(S_.a.self, "args"), TUPLE()) or z3.BoolVal(True),
    S_.I.assume_shape(S_.old.f(S_.a.self, "kwargs"), DICT()) or z3.BoolVal(True),
    Or(Val.is_VInt(S_.old.f(S_.a.self, "interval")), Val.is_VFloat(S_.old.f(S_.a.self, "interval"))),
    If(Val.is_VInt(S_.old.f(S_.a.self, "interval")), iv(S_.old.f(S_.a.self, "interval")) > 0,
       Val.f(S_.old.f(S_.a.self, "interval")) > 0),
    Val.is_VFloat(S_.old.f(S_.a.self, "start_ts")), Val.is_VStr(S_.old.f(S_.a.self, "name")),
    # as created by LongPoll.start: no extra arguments for the repeated function
    S_.old.llen(S_.old.f(S_.a.self, "args")) == 0, S_.old.dlen(S_.old.f(S_.a.self, "kwargs")) == 0))
c.result = NONE
c.host_ops_exc_base = "Exception"
c.modifies = lambda S_: [("all",)]
# the loop ends only when the stop event is set: no failure of the repeated function ends it


def _tick(L):
    fs = [e for e in L.iter_log() if e.label == "timer.function"]
    return [("function-called-once-per-tick", z3.BoolVal(len(fs) == 1))]


def _timer_inv(L):
    """the timer's own set-up is not touched by what it runs"""
    n = L.now()
    me = L.local("self")
    iv_ = n.f(me, "interval")
    return And(Val.is_VStr(n.f(me, "name")), n.llen(n.f(me, "args")) == 0, n.dlen(n.f(me, "kwargs")) == 0, Val.is_VFloat(n.f(me, "start_ts")),
               Or(And(Val.is_VInt(iv_), iv(iv_) > 0), And(Val.is_VFloat(iv_), Val.f(iv_) > 0)))


c.loop("while:not self.event.wait(self._time)", invariant=_timer_inv, body_ensures=_tick, body_no_raise=True,
       modifies=lambda L: [("all",)])
c.protects = lambda S_: {"fields": ["start_ts"], "lists": [S_.old.f(S_.a.self, "args")], "dicts": [S_.old.f(S_.a.self, "kwargs")]}
