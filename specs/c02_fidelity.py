"""C02 snapshot fidelity (+ C06 independence, C07 closure, C05 per-action limits): frame collector, snapshot action."""
from .common import *
from .c05_bounds import VP, VSP, cfg_of, inv_vsp, inv_cache
from .c06_total import cache_of, lookup_of, _type_of
from .c10_conditions import inv_action_context, inv_trigger_context
from pyvc.core import ALLOC_BASE, IdStr

FC = "processor/frame_collector.py"
SA = "processor/context/snapshot_action.py"
AC = "processor/context/action_context.py"

NthBack = z3.Function("NthBack", Val, I, Val)      # the k-th caller of a frame (f_back chain)


@class_invariant("FrameCollector")
def inv_fc(S_, fc):
    h = S_.new
    src = h.f(fc, "FrameCollector.__source")
    return And(S_.pre(src, "SnapshotActionContext"), inv_action_context(S_, src),
               S_.pre(h.f(fc, "FrameCollector.__frame"), "frame"),
               Val.is_VBool(h.f(fc, "FrameCollector.__has_time_exceeded")))


# ---------------------------------------------------------------- SnapshotActionContext.should_collect_vars
c = contract(SA, "SnapshotActionContext.should_collect_vars", ["C02"])
c.param("self", OBJ("SnapshotActionContext")).param("current_frame_index", INT)
c.result = BOOL
c.modifies = lambda S_: []
c.logged = "should_collect_vars"


def _scv_post(S_):
    h = S_.old
    cfg = h.f(h.f(S_.a.self, "location_action"), "LocationAction.__config")
    ft = h.dget_or(cfg, "frame_type", VStr("single_frame"))
    return bv(S_.result) == If(ft == VStr("no_frame"), False, If(ft == VStr("all_frame"), True,
                                                                 iv(S_.a.current_frame_index) == 0))


c.ens("frame-type-table", _scv_post)

# ---------------------------------------------------------------- SnapshotActionContext.collection_config
c = contract(SA, "SnapshotActionContext.collection_config", ["C05"])
c.param("self", OBJ("SnapshotActionContext"))
c.result = FRESH("VariableProcessorConfig")
c.modifies = lambda S_: []
c.logged = "collection_config"


def _cc_post(S_):
    h, n = S_.old, S_.new
    cfg = h.f(h.f(S_.a.self, "location_action"), "LocationAction.__config")
    r = S_.result
    pairs = [("max_string_length", "MAX_STRING_LENGTH", 1024), ("max_collection_size", "MAX_COLLECTION_SIZE", 10),
             ("max_variables", "MAX_VARIABLES", 1000), ("max_var_depth", "MAX_VAR_DEPTH", 5)]
    return And(*[n.f(r, f) == h.dget_or(cfg, k, VInt(d)) for f, k, d in pairs])


c.ens("limits-of-this-action", _cc_post)

# ---------------------------------------------------------------- FrameCollector.parse_short_name
c = contract(FC, "FrameCollector.parse_short_name", ["C02", "C19"])
c.param("self", OBJ("FrameCollector")).param("filename", STR)
c.result = TUPLE(STR, VAL)
c.modifies = lambda S_: []
c.logged = "parse_short_name"


def _psn_log(S_, kind):
    """short path = file name with the matched prefix removed; app flag as the configuration says."""
    if kind != "return":
        return []
    calls = S_.calls("is_app_frame")
    if len(calls) != 1:
        return [("one-lookup", "LOG", z3.BoolVal(False), None)]
    res = calls[0].result
    flag, match = S_.new.lget(res, 0), S_.new.lget(res, 1)
    fn = sv(S_.a.filename)
    short = sv(S_.new.lget(S_.result, 0))
    return [("short-path-strips-matched-prefix", "POST", And(
        calls[0].args[1] == S_.a.filename, S_.new.lget(S_.result, 1) == flag,
        Implies(Val.is_VNone(match), short == fn),
        Implies(Val.is_VStr(match), short == z3.SubString(fn, z3.Length(sv(match)), z3.Length(fn)))), None)]


c.exit_check(_psn_log)

# config.is_app_frame through the action context (C19 proves ConfigService.is_app_frame itself)
c = contract(SA, "SnapshotActionContext.is_app_frame", [], coarse=True)
c.param("self", OBJ("SnapshotActionContext")).param("filename", STR)
c.result = TUPLE(BOOL, OPT(STR))
c.modifies = lambda S_: []
c.logged = "is_app_frame"


# =============================================================================== FrameCollector._process_frame
def frame_spec(S_, h, n, sf, frame):
    """sf (a StackFrame) describes `frame`: file, function, line, class of self."""
    code = h.f(frame, "f_code")
    return And(n.f(sf, "_file_name") == h.f(code, "co_filename"), n.f(sf, "_method_name") == h.f(code, "co_name"),
               n.f(sf, "_line_number") == h.f(frame, "f_lineno"))


c = contract(FC, "FrameCollector._process_frame", ["C02", "C05", "C06", "C07"])
c.param("self", OBJ("FrameCollector")).param("var_lookup", DICT(OBJ("Variable", inv=False)))
c.param("var_cache", OBJ("VariableCacheProvider"))
c.param("frame", FRAME()).param("collect_vars", BOOL)
c.req("table-and-cache-distinct", lambda S_: S_.old.f(S_.a.var_cache, "VariableCacheProvider.__cache") != S_.a.var_lookup)
c.result = FRESH("StackFrame")
c.host_ops_exc_base = "Exception"
c.logged = "_process_frame"
c.relevancy = 0
c.modifies = lambda S_: [("all",)]
c.sig_props = ["C06"]
c.ens("describes-the-frame", lambda S_: frame_spec(S_, S_.old, S_.new, S_.result, S_.a.frame), props=["C02"])
c.ens("no-variables-unless-asked", lambda S_: Implies(Not(bv(S_.a.collect_vars)), And(
    S_.is_fresh(S_.new.f(S_.result, "_variables"), "list"), S_.new.llen(S_.new.f(S_.result, "_variables")) == 0)),
    props=["C02"])


def _pf_log(S_, kind):
    """C02/C05: when variables are collected, exactly the frame's locals are processed, once, as one dict,
    with a processor built from this action's limits on the table and cache handed in."""
    if kind != "return":
        return []
    pv = S_.calls("VariableSetProcessor.process_variable")
    cc = S_.calls("collection_config")
    out = []
    if pv:
        p = pv[0]
        proc = p.args[0]
        hp = __import__("pyvc.contract", fromlist=["Heap"]).Heap(None, p.pre)
        out.append(("locals-of-this-frame-with-this-actions-limits", "LOG", And(
            z3.BoolVal(len(pv) == 1 and len(cc) == 1), p.args[2] == S_.old.f(S_.a.frame, "f_locals"),
            hp.f(proc, "VariableSetProcessor.__var_lookup") == S_.a.var_lookup,
            hp.f(proc, "VariableSetProcessor.__var_cache") == S_.a.var_cache,
            hp.f(proc, "VariableSetProcessor.__config") == cc[0].result if cc else z3.BoolVal(False)), ["C02", "C05"]))
    else:
        te = S_.new.f(S_.a.self, "FrameCollector.__has_time_exceeded")
        out.append(("variables-skipped-only-when-not-asked-or-out-of-time", "LOG",
                    Or(Not(bv(S_.a.collect_vars)), te == VTrue), ["C02"]))
    return out


c.exit_check(_pf_log)


# =============================================================================== FrameCollector.collect
def nth_back_axioms(S_, h, f0, k):
    """Unfolding of the f_back chain at index k (ghost function NthBack)."""
    return And(NthBack(f0, z3.IntVal(0)) == f0,
               Implies(Val.is_VRef(NthBack(f0, k)), NthBack(f0, k + 1) == h.f(NthBack(f0, k), "f_back")))


c = contract(FC, "FrameCollector.collect", ["C02", "C06"])
c.param("self", OBJ("FrameCollector")).param("var_lookup", DICT(OBJ("Variable", inv=False)))
c.param("var_cache", OBJ("VariableCacheProvider"))
c.req("table-and-cache-distinct", lambda S_: S_.old.f(S_.a.var_cache, "VariableCacheProvider.__cache") != S_.a.var_lookup)
c.result = TUPLE(VAL, VAL)
c.host_ops_exc_base = "Exception"
c.logged = "collect"
c.modifies = lambda S_: [("all",)]
c.sig_props = ["C06"]
c.protects = lambda S_: {"fields": ["f_back", "f_code", "f_lineno", "f_locals", "f_globals", "co_filename", "co_name",
                                    "_FrameCollector__frame", "_FrameCollector__source",
                                    "_VariableCacheProvider__cache"], "lists": [], "dicts": []}


def _chain_def(S_):
    """Definition of the ghost function NthBack (the f_back chain of the paused frame)."""
    h = S_.old
    f0 = h.f(S_.a.self, "FrameCollector.__frame")
    k = z3.Int("k!chain")
    return And(NthBack(f0, z3.IntVal(0)) == f0,
               z3.ForAll([k], Implies(And(k >= 0, Val.is_VRef(NthBack(f0, k))),
                                      NthBack(f0, k + 1) == h.f(NthBack(f0, k), "f_back"))))


c.ens("returns-the-table-it-was-given", lambda S_: S_.new.lget(S_.result, 1) == S_.a.var_lookup, props=["C02", "C07"])


def _collect_inv(L):
    h = L.now()
    frames, cur = L.local("collected_frames"), L.local("current_frame")
    return And(frames == L.pre_local("collected_frames"),
               Or(Val.is_VNone(cur), And(Val.is_VRef(cur), h.typeof(cur) == L.cid("frame"),
                                         Val.r(cur) > 0, Val.r(cur) < ALLOC_BASE)))


def _collect_body(L):
    """One step of the stack walk: the current frame is processed exactly once (variables requested with this
    frame's index, on the table and cache handed in), its StackFrame is appended, and the walk moves to the
    caller (f_back).  By induction over the steps the collected frames are the real call stack in order."""
    log = L.iter_log()
    pf = [e for e in log if e.label == "_process_frame"]
    scv = [e for e in log if e.label == "should_collect_vars"]
    apps = [e for e in log if e.label == "list.append"]
    if len(pf) != 1 or len(scv) != 1:
        return [("one-frame-per-step", z3.BoolVal(False))]
    h0, h1 = L.at_iteration_start(), L.now()
    frames = L.local("collected_frames")
    n0 = h0.llen(frames)
    cur0 = L.iter_pre_local("current_frame")
    return [("one-frame-per-step", And(pf[0].args[3] == cur0,
                                       pf[0].args[4] == scv[0].result, scv[0].args[1] == Val.VInt(n0),
                                       pf[0].args[1] == L.local("var_lookup"), pf[0].args[2] == L.local("var_cache"))),
            ("frame-appended-then-caller", And(
                z3.BoolVal(len(apps) == 1 and log.index(apps[0]) > log.index(pf[0])) if apps else z3.BoolVal(False),
                apps[0].args[0] == frames if apps else z3.BoolVal(False),
                apps[0].args[1] == pf[0].result if apps else z3.BoolVal(False),
                L.local("current_frame") == h0.f(cur0, "f_back")))]


c.loop("while:current_frame is not None", invariant=_collect_inv, body_ensures=_collect_body,
       modifies=lambda L: [("all",)])
c.ens("returns-the-frames-it-collected", lambda S_: And(S_.is_fresh(S_.new.lget(S_.result, 0), "list"),
                                                        S_.elems(S_.new.lget(S_.result, 0), OBJ("StackFrame", inv=False))),
      props=["C02"])




# =============================================================================== watches / captures
def trigger_cache(h, actx):
    """The identity cache of the action (= of the snapshot it builds)."""
    return h.f(actx, "var_cache")


WATCH_RESULT = TUPLE(VAL, VAL, VAL)

c = contract(AC, "ActionContext.eval_watch", ["C02", "C05", "C06", "C10", "C16"])
c.param("self", OBJ("ActionContext", subclasses=["SnapshotActionContext", "LogActionContext", "MetricActionContext",
                                                 "SpanActionContext", "NoActionContext"]))
c.param("watch", STR).param("source", STR)
c.result = WATCH_RESULT
c.logged = "eval_watch"
c.host_ops_exc_base = "BaseException"
c.modifies = lambda S_: [("all",)]
# an expression (or its value) that fails yields an error result for that expression only: nothing escapes
c.sig_props = ["C06", "C10"]
c.ens("watch-result-names-the-expression", lambda S_: And(
    S_.is_fresh(S_.new.lget(S_.result, 0), "WatchResult"),
    S_.new.f(S_.new.lget(S_.result, 0), "_expression") == S_.a.watch,
    S_.new.f(S_.new.lget(S_.result, 0), "WatchResult.__source") == S_.a.source,
    Val.is_VStr(S_.new.lget(S_.result, 2)),
    # the variables collected for it: a table of its own (never the snapshot's)
    S_.created_during_call(S_.new.lget(S_.result, 1)), S_.new.typeof(S_.new.lget(S_.result, 1)) == S_.cid("dict")),
    props=["C02", "C16"])


def _ew_log(S_, kind):
    if kind != "return":
        return []
    ev = S_.calls("evaluate_expression")
    pv = S_.calls("VariableSetProcessor.process_variable")
    out = [("expression-evaluated-once-in-the-frame", "LOG",
            And(z3.BoolVal(len(ev) == 1), ev[0].args[1] == S_.a.watch if ev else z3.BoolVal(False),
                ev[0].args[0] == S_.old.f(S_.a.self, "trigger_context") if ev else z3.BoolVal(False)), ["C02", "C10", "C16"])]
    if pv:
        from pyvc.contract import Heap
        hp = Heap(None, pv[0].pre)
        proc = pv[0].args[0]
        out.append(("value-recorded-under-the-expression-with-this-snapshots-identity-cache", "LOG", And(
            z3.BoolVal(len(pv) == 1), pv[0].args[1] == S_.a.watch, pv[0].args[2] == ev[0].result if ev else z3.BoolVal(False),
            hp.f(proc, "VariableSetProcessor.__var_cache") == trigger_cache(S_.old, S_.a.self),
            hp.dlen(hp.f(proc, "VariableSetProcessor.__var_lookup")) == 0), ["C02", "C07"]))
    return out


c.exit_check(_ew_log)

c = contract(AC, "ActionContext.process_capture_variable", ["C02", "C06", "C15"])
c.param("self", OBJ("ActionContext", subclasses=["SnapshotActionContext", "LogActionContext", "MetricActionContext",
                                                 "SpanActionContext", "NoActionContext"]))
c.param("name", STR).param("variable", ANY)
c.result = WATCH_RESULT
c.logged = "process_capture_variable"
c.host_ops_exc_base = "Exception"
c.modifies = lambda S_: [("all",)]
c.sig_props = ["C06"]
c.ens("capture-result-names-the-event", lambda S_: And(
    S_.is_fresh(S_.new.lget(S_.result, 0), "WatchResult"),
    S_.new.f(S_.new.lget(S_.result, 0), "_expression") == S_.a.name,
    S_.new.f(S_.new.lget(S_.result, 0), "WatchResult.__source") == VStr("CAPTURE"),
    # the variables collected for it: a table of its own (never the snapshot's)
    S_.created_during_call(S_.new.lget(S_.result, 1)), S_.new.typeof(S_.new.lget(S_.result, 1)) == S_.cid("dict")),
    props=["C02", "C15"])
c.exit_check(lambda S_, kind: [("captured-value-is-the-value-given", "LOG", And(
    z3.BoolVal(len(S_.calls("VariableSetProcessor.process_variable")) == 1),
    S_.calls("VariableSetProcessor.process_variable")[0].args[2] == S_.a.variable), ["C02", "C15"])]
    if kind == "return" and S_.calls("VariableSetProcessor.process_variable") else [])


# ---------------------------------------------------------------- LocationAction.tracepoint
c = contract(TRIGGER, "LocationAction.tracepoint", ["C02"])
c.param("self", OBJ("LocationAction"))
c.req("action-is-attached-to-a-location", lambda S_: S_.I.assume_shape(
    S_.old.f(S_.a.self, "LocationAction.__location"), OBJ("Trigger")) or z3.BoolVal(True))
c.result = FRESH("TracePointConfig")
c.logged = "tracepoint"
c.modifies = lambda S_: []


def _tp_post(S_):
    """The snapshot names the tracepoint that fired: id, path, line, arguments (without watches), watches."""
    h, n = S_.old, S_.new
    a = S_.a.self
    cfg = h.f(a, "LocationAction.__config")
    trig = h.f(a, "LocationAction.__location")
    loc = h.f(trig, "Trigger.__location")
    r = S_.result
    args = n.f(r, "_args")
    is_line = h.typeof(loc) == S_.cid("LineLocation")
    return And(n.f(r, "_id") == h.f(a, "LocationAction.__id"),
               n.f(r, "_path") == If(is_line, h.f(loc, "LineLocation.__path"), h.f(loc, "FunctionLocation.__path")),
               n.f(r, "_line_no") == If(is_line, h.f(loc, "LineLocation.__line"), VInt(-1)),
               n.f(r, "_watches") == h.dget_or(cfg, "watches", n.f(r, "_watches")),
               S_.is_fresh(args, "dict"), Not(n.dhas(args, "watches")),
               *[Implies(h.dhas(cfg, k), And(n.dhas(args, k), n.dget(args, k) == h.dget(cfg, k)))
                 for k in ("fire_count", "fire_period", "frame_type", "stack_type", "condition", "stage", "span")])


c.ens("names-the-tracepoint", _tp_post)

# ---------------------------------------------------------------- SnapshotActionContext._process_action
c = contract(SA, "SnapshotActionContext._process_action", ["C02", "C06", "C07", "C16", "C20"])
c.param("self", OBJ("SnapshotActionContext"))
c.result = VAL
c.host_ops_exc_base = "Exception"
c.logged = "_process_action"
c.modifies = lambda S_: [("all",)]
c.sig("Exception", "log-template-cannot-be-rendered",
      cond=lambda S_: S_.old.dhas(S_.old.f(S_.old.f(S_.a.self, "location_action"), "LocationAction.__config"), "log_msg"))
c.sig_props = ["C06"]
c.max_paths = 40         # 19 paths on the unchanged tree; a body that explodes is reported (what was decided so far stands), not explored for an hour
# the action's own configuration is not touched by collecting (encapsulation); the client's resource is a Resource
c.protects = lambda S_: {"fields": ["_resource"], "lists": [], "dicts": [S_.old.f(S_.old.f(S_.a.self, "location_action"), "LocationAction.__config")]}
c.req("the-client-resource-has-been-set-up", lambda S_: S_.I.assume_shape(S_.old.f(S_.old.f(S_.old.f(
    S_.a.self, "trigger_context"), "TriggerContext.__config"), "_resource"), OBJ("Resource")) or z3.BoolVal(True))
# the body beyond the frame collection (watch loop, log rendering, capture) exceeds the solver budget as one
# unit (DESIGN.md, C02): this contract states obligations on the path prefix up to the call of collect()
# c.stop_after = "collect"


def _spa_log(S_, kind):
    if kind not in ("return", "prefix"):
        return []
    from pyvc.contract import Heap
    h = S_.old
    me = S_.a.self
    tctx = h.f(me, "trigger_context")
    out = []
    col = S_.calls("collect")
    tp = S_.calls("tracepoint")
    att = S_.calls("attach_result")
    out.append(("one-collection-per-action", "LOG", z3.BoolVal(len(col) == 1), ["C02", "C06"]))
    if col:
        hc = Heap(None, col[0].pre)
        table, cache = col[0].args[1], col[0].args[2]
        # C06: each snapshot is complete on its own: it starts from an empty variable table and an empty
        # identity cache (tracepoints sharing a location or trace event do not share or empty one another's)
        out.append(("snapshot-starts-from-its-own-empty-table-and-cache", "LOG", And(
            hc.dlen(table) == 0, hc.dlen(hc.f(cache, "VariableCacheProvider.__cache")) == 0,
            hc.f(hc.f(col[0].args[0], "FrameCollector.__source"), "location_action") == h.f(me, "location_action"),
            hc.f(col[0].args[0], "FrameCollector.__frame") == h.f(tctx, "TriggerContext.__frame")), ["C06", "C02"]))
    ws = S_.calls("eval_watch")
    cfg = h.f(h.f(me, "location_action"), "LocationAction.__config")
    out.append(("watches-evaluated-as-watches", "LOG",
                And(*[Or(e.args[2] == VStr("WATCH"), e.args[2] == VStr("LOG")) for e in ws]) if ws else z3.BoolVal(True),
                ["C02"]))
    if kind == "return":
        # what the action hands on: the snapshot as exactly one result (to be decorated / sent / completed later, under the
        # per-result guard), the log line - when there is one - as a result of its own and never emitted by the action itself,
        # and the snapshot carries the rendered log text
        pl = S_.calls("process_log")
        n = S_.new
        snaps = S_.calls("EventSnapshot")
        kinds = [z3.simplify(n.typeof(e.args[1])) for e in att]
        is_cls = lambda t, nm: z3.is_int_value(t) and t.as_long() == S_.cid(nm)
        n_snap = sum(1 for t in kinds if is_cls(t, "SendSnapshotActionResult") or is_cls(t, "DeferredSnapshotActionResult"))
        n_log = sum(1 for t in kinds if is_cls(t, "LogActionResult"))
        direct = [e for e in S_.calls("config_get") if z3.simplify(e.args[1]).eq(VStr("tracepoint_logger"))]
        out.append(("one-snapshot-result-and-the-log-line-as-its-own-result", "LOG", z3.BoolVal(
            len(snaps) == 1 and n_snap == 1 and n_log == len(pl) and len(att) == n_snap + n_log and not direct), ["C02", "C16", "C20"]))
    return out


c.exit_check(_spa_log)

TCX = "processor/context/trigger_context.py"
c = contract(TCX, "TriggerContext.attach_result", ["C02"])
c.param("self", OBJ("TriggerContext")).param("result", VAL)
c.result = NONE
c.logged = "attach_result"
c.modifies = lambda S_: [("list", S_.old.f(S_.a.self, "TriggerContext.__results"))]
c.ens("appended", lambda S_: And(
    S_.new.llen(S_.old.f(S_.a.self, "TriggerContext.__results")) == S_.old.llen(S_.old.f(S_.a.self, "TriggerContext.__results")) + 1,
    S_.new.lget(S_.old.f(S_.a.self, "TriggerContext.__results"), S_.old.llen(S_.old.f(S_.a.self, "TriggerContext.__results"))) == S_.a.result))

# ---------------------------------------------------------------- EventSnapshot.__init__
ES = "api/tracepoint/eventsnapshot.py"
c = contract(ES, "EventSnapshot.__init__", ["C02", "C08"])
c.param("self", OBJ("EventSnapshot", inv=False)).param("tracepoint", VAL).param("ts", VAL).param("resource", VAL)
c.param("frames", VAL).param("var_lookup", VAL)
c.result = NONE
c.logged = "EventSnapshot"
c.modifies = lambda S_: [("field", S_.a.self, f) for f in ("_id", "_tracepoint", "_var_lookup", "_ts_nanos", "_frames",
                                                            "_watches", "_attributes", "_duration_nanos", "_resource", "_log")]
c.sig("BaseException", "resource-merge-failed", cond=lambda S_: Val.is_VNone(S_.a.resource))
c.ens("fields-are-the-arguments", lambda S_: And(
    S_.f(S_.a.self, "_tracepoint") == S_.a.tracepoint, S_.f(S_.a.self, "_var_lookup") == S_.a.var_lookup,
    S_.f(S_.a.self, "_ts_nanos") == S_.a.ts, S_.f(S_.a.self, "_frames") == S_.a.frames,
    S_.is_fresh(S_.f(S_.a.self, "_watches"), "list"), S_.new.llen(S_.f(S_.a.self, "_watches")) == 0,
    Val.is_VNone(S_.f(S_.a.self, "_log")), S_.f(S_.a.self, "_duration_nanos") == VInt(0),
    Val.is_VInt(S_.f(S_.a.self, "_id")), iv(S_.f(S_.a.self, "_id")) >= 0,
    S_.is_fresh(S_.f(S_.a.self, "_attributes"), "BoundedAttributes")))
c.coarse = True      # body (BoundedAttributes / Resource.merge) is covered by the C18 contracts
c.props = []


@class_invariant("EventSnapshot")
def inv_snapshot(S_, s):
    h = S_.new
    return And(S_.pre(h.f(s, "_watches"), "list"), h.llen(h.f(s, "_watches")) >= 0,
               S_.pre(h.f(s, "_var_lookup"), "dict"), h.dlen(h.f(s, "_var_lookup")) >= 0,
               S_.pre(h.f(s, "_attributes"), "BoundedAttributes"),
               Val.is_VInt(h.f(s, "_ts_nanos")), Val.is_VInt(h.f(s, "_id")), iv(h.f(s, "_id")) >= 0,
               h.f(s, "_watches") != h.f(s, "_frames"))

# ---------------------------------------------------------------- EventSnapshot.merge_var_lookup / add_watch_result
c = contract(ES, "EventSnapshot.merge_var_lookup", ["C07"])
c.param("self", OBJ("EventSnapshot")).param("lookup", DICT(OBJ("Variable", inv=False)))
c.req("not-merging-into-itself", lambda S_: S_.a.lookup != S_.old.f(S_.a.self, "_var_lookup"))
c.result = NONE
c.logged = "merge_var_lookup"
c.modifies = lambda S_: [("dict", S_.old.f(S_.a.self, "_var_lookup"))]


def _merge_post(S_):
    """C07: merging keeps every entry the snapshot had and adds every entry of the merged table."""
    h, n = S_.old, S_.new
    t = h.f(S_.a.self, "_var_lookup")
    k = z3.Const("k!mvl", Val)
    return z3.ForAll([k], And(n.dhas(t, k) == Or(h.dhas(t, k), h.dhas(S_.a.lookup, k)),
                              n.dget(t, k) == If(h.dhas(S_.a.lookup, k), h.dget(S_.a.lookup, k), h.dget(t, k))))


c.ens("union-with-the-merged-table-winning", _merge_post)

c = contract(ES, "EventSnapshot.add_watch_result", ["C02"])
c.param("self", OBJ("EventSnapshot")).param("watch_result", VAL)
c.result = NONE
c.logged = "add_watch_result"
c.modifies = lambda S_: [("list", S_.old.f(S_.a.self, "_watches"))]
c.ens("appended-in-order", lambda S_: And(
    S_.new.llen(S_.old.f(S_.a.self, "_watches")) == S_.old.llen(S_.old.f(S_.a.self, "_watches")) + 1,
    S_.new.lget(S_.old.f(S_.a.self, "_watches"), S_.old.llen(S_.old.f(S_.a.self, "_watches"))) == S_.a.watch_result))
