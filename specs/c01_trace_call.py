"""C01 host transparency / C03 placement / C15 callbacks: TriggerHandler."""
from .common import *
from .c15_deferred import tl_store, IDENT, spec_cb_matches, ev_in
from .c03_placement import spec_line_match, spec_func_match
from pyvc.core import ALLOC_BASE, BoundMethod

TH = "processor/trigger_handler.py"
TC = "processor/context/trigger_context.py"


def cb_stack(h, th):
    """The calling thread's stack of pending CallbackContexts (a deque), if set."""
    return h.dget(tl_store(h, h.f(th, "_callbacks")), IDENT)


def cb_is_set(h, th):
    return h.dhas(tl_store(h, h.f(th, "_callbacks")), IDENT)


def store_inv(h, th, S_):
    """C01 INV: if the thread has an entry, it is a non-empty deque (so the next event can pop it)."""
    st = cb_stack(h, th)
    return Implies(cb_is_set(h, th), And(S_.isinst(st, "deque", h), h.llen(st) > 0))


@class_invariant("Trigger")
def inv_trigger(S_, t):
    h = S_.new
    loc = h.f(t, "Trigger.__location")
    acts = h.f(t, "Trigger.__actions")
    bound = S_.I.st.ghost.get("_pre_bound") or S_.I.st.next_id       # "exists already" (see SpecCtx.pre)
    return And(Val.is_VRef(loc), Val.r(loc) > 0, Val.r(loc) < bound,
               Or(And(h.typeof(loc) == S_.cid("LineLocation"), CLASS_INV("LineLocation")(S_, loc)),
                  And(h.typeof(loc) == S_.cid("FunctionLocation"), CLASS_INV("FunctionLocation")(S_, loc))),
               S_.pre(acts, "list"), h.llen(acts) >= 0,
               S_.elems(acts, OBJ("LocationAction")))


def CLASS_INV(name):
    from pyvc.contract import CLASS_INVARIANTS
    return CLASS_INVARIANTS[name]


@class_invariant("TriggerHandler")
def inv_handler(S_, th):
    h = S_.new
    cbs = h.f(th, "_callbacks")
    cfg = h.f(th, "_tp_config")
    stack = cb_stack(h, th)
    top = h.lget(stack, h.llen(stack) - 1)
    return And(
        S_.pre(cbs, "ThreadLocal"), CLASS_INV("ThreadLocal")(S_, cbs),
        S_.pre(cfg, "list"), h.llen(cfg) >= 0, S_.elems(cfg, OBJ("Trigger")),
        S_.pre(h.f(th, "_config"), "ConfigService"),
        Val.is_VRef(h.f(th, "_push_service")),
        # entries of the callback store: None-free, a pre-existing deque whose top is a CallbackContext
        Implies(cb_is_set(h, th), And(S_.pre(stack, "deque"), h.llen(stack) >= 0,
                                      Implies(h.llen(stack) > 0, And(S_.pre(top, "CallbackContext"),
                                                                     CLASS_INV("CallbackContext")(S_, top))))),
    )


# ---------------------------------------------------------------- Trigger.actions (property)
c = contract(TRIGGER, "Trigger.actions", ["C03"])
c.param("self", OBJ("Trigger"))
c.result = FRESH("list")


def _actions_post(S_):
    src = S_.old.f(S_.a.self, "Trigger.__actions")
    r = S_.result
    return And(S_.new.llen(r) == S_.old.llen(src), S_.new.larr(r) == S_.old.larr(src), S_.elems(r, OBJ("LocationAction")))


c.ens("same-actions-in-order", _actions_post)
# with_location attaches the trigger to its actions (nothing else is written)
c.modifies = lambda S_: [("field*", "LocationAction.__location")]
c.trusted_step = "comprehension lifting: element i of the result is action i (for-each rule)"

# ---------------------------------------------------------------- TriggerHandler.__actions_for_location
c = contract(TH, "TriggerHandler.__actions_for_location", ["C03", "C01"])
c.param("self", OBJ("TriggerHandler")).param("event", STR).param("file", STR).param("line", INT)
c.param("function", OPT(STR)).param("frame", FRAME())
c.result = FRESH("list")
c.logged = "__actions_for_location"
c.modifies = lambda S_: [("field*", "LocationAction.__location"), ("field*", "FunctionLocation.__function_name")]
c.ens("result-is-action-list", lambda S_: And(S_.is_fresh(S_.result, "list"), S_.new.llen(S_.result) >= 0,
                                              S_.elems(S_.result, OBJ("LocationAction"))))
c.sig_props = ["C01"]


def spec_trigger_matches(h, trig, a, cid):
    """C03: when a tracepoint acts (named method tracepoints and line tracepoints)."""
    loc = h.f(trig, "Trigger.__location")
    return If(h.typeof(loc) == cid("LineLocation"),
              spec_line_match(h, loc, a["event"], a["file"], a["line"]),
              spec_func_match(h, loc, a["event"], a["file"], a["function"]))


def _afl_inv(L):
    acts = L.local("actions")
    h = L.now()
    # the accumulator stays the list allocated before the loop (+= extends in place)
    return And(acts == L.pre_local("actions"), h.llen(acts) >= 0)


def _afl_body(L):
    """Per-iteration contract: the accumulated list grows by exactly this trigger's actions when the trigger
    matches the event, and is untouched otherwise (named-method and line tracepoints)."""
    h0, h1 = L.at_iteration_start(), L.now()
    acts = L.local("actions")
    trig = L.local("trigger")
    a = {k: L.local(k) for k in ("event", "file", "line", "function")}
    loc = h0.f(trig, "Trigger.__location")
    named = Or(h0.typeof(loc) == L.cid("LineLocation"), Val.is_VStr(h0.f(loc, "FunctionLocation.__function_name")))
    m = spec_trigger_matches(h0, trig, a, L.cid)
    src = h0.f(trig, "Trigger.__actions")
    n0, n1, k = h0.llen(acts), h1.llen(acts), h0.llen(src)
    j = z3.Int("j!afl")
    grown = And(n1 == n0 + k,
                z3.ForAll([j], Implies(And(j >= 0, j < n0), h1.lget(acts, j) == h0.lget(acts, j))),
                z3.ForAll([j], Implies(And(j >= 0, j < k), h1.lget(acts, n0 + j) == h0.lget(src, j))))
    same = And(n1 == n0, h1.larr(acts) == h0.larr(acts))
    return Implies(named, If(m, grown, same))


c.loop("iter:self._tp_config", invariant=_afl_inv, body_ensures=_afl_body)

# ---------------------------------------------------------------- TriggerHandler.__process_call_backs
c = contract(TH, "TriggerHandler.__process_call_backs", ["C15", "C01"])
c.param("self", OBJ("TriggerHandler")).param("ctx", OBJ("TriggerContext")).param("arg", ANY)
c.param("frame", FRAME()).param("event", STR).param("file", STR).param("line", INT).param("function_name", OPT(STR))
c.req("thread-has-pending-callbacks", lambda S_: cb_is_set(S_.old, S_.a.self))
c.req("store-invariant", lambda S_: store_inv(S_.old, S_.a.self, S_))
c.req("only-line-return-exception", lambda S_: ev_in(S_.a.event, ["line", "return", "exception"]))
c.result = NONE
c.logged = "__process_call_backs"
c.modifies = lambda S_: [("all",)]


HANDLER_PRIVATE_FIELDS = ["_callbacks", "_tp_config", "_config", "_push_service",
                          "_TriggerHandler__old_sys_trace", "_TriggerHandler__old_thread_trace",
                          "_ThreadLocal__store", "_ThreadLocal__default_provider",
                          "_CallbackContext__event", "_CallbackContext__filename", "_CallbackContext__function_name",
                          "_CallbackContext__line", "_CallbackContext__callbacks"]


def handler_private(S_):
    """Encapsulation assumption: actions, results, callbacks and plugins hold no reference to the handler's
    own fields, its per-thread callback store / stack or the installed trigger list."""
    h = S_.old
    th = S_.a.self
    st = tl_store(h, h.f(th, "_callbacks"))
    return {"fields": HANDLER_PRIVATE_FIELDS, "dicts": [st], "lists": [cb_stack(h, th), h.f(th, "_tp_config")]}


c.protects = handler_private


def _pcb_top(S_):
    h = S_.old
    st = cb_stack(h, S_.a.self)
    return st, h.lget(st, h.llen(st) - 1)


def _pcb_post(S_):
    """The top pending context is examined: if it matches this event it is processed exactly once (with this
    event's frame and arg) and removed; otherwise it stays where it was."""
    h = S_.old
    st, top = _pcb_top(S_)
    m = spec_cb_matches(h, top, S_.a.event, S_.a.file, S_.a.function_name)
    procs = S_.calls("CallbackContext.process")
    if len(procs) > 1:
        return z3.BoolVal(False)
    if len(procs) == 1:
        p = procs[0]
        return And(m, p.args[0] == top, p.args[1] == S_.a.ctx, p.args[2] == S_.a.event, p.args[3] == S_.a.frame,
                   p.args[4] == S_.a.arg)
    return Not(m)


c.exit_check(lambda S_, kind: [("top-context-processed-iff-matching", "LOG", _pcb_post(S_), ["C15"])]
             if kind == "return" else [])


def _pcb_stack_after(S_, kind):
    """'completed exactly once': a context whose completion was started - whether it finished or failed half way - is no
    longer pending (it must not be completed a second time); one that is not at its location stays where it was, and
    nothing below the top is touched."""
    h, n = S_.old, S_.new
    th = S_.a.self
    st, top = _pcb_top(S_)
    n0 = h.llen(st)
    procs = S_.calls("CallbackContext.process")
    j = z3.Int("j!pcb")
    below_same = z3.ForAll([j], Implies(And(j >= 0, j < n0 - 1), n.lget(st, j) == h.lget(st, j)))
    removed = If(n0 == 1, Not(cb_is_set(n, th)), And(cb_is_set(n, th), cb_stack(n, th) == st, n.llen(st) == n0 - 1, below_same))
    kept = And(cb_is_set(n, th), cb_stack(n, th) == st, n.llen(st) == n0, n.lget(st, n0 - 1) == top, below_same)
    if procs:
        return [("started-completion-is-never-left-pending", "POST", removed, ["C15"])]
    if kind == "return":
        return [("context-not-at-its-location-stays-pending", "POST", kept, ["C15"])]
    return []


c.exit_check(_pcb_stack_after)
# C01 INV: on every exit (also when a callback raised) the store is left consistent for the next event
c.ens("store-invariant-kept", lambda S_: store_inv(S_.new, S_.a.self, S_), props=["C01", "C15"])
c.sig("BaseException", "a-callback-failed", post=lambda S_: store_inv(S_.new, S_.a.self, S_), props=["C01"])


def _pcb_second(S_, kind):
    """Statement clause 'every deferred piece of work is completed ... not after the invocation has returned':
    a pending context *below* the top that also matches this event must not be left pending.  Witness form
    (second from top) of the quantified clause."""
    if kind != "return":
        return []
    h = S_.old
    st, top = _pcb_top(S_)
    n = h.llen(st)
    second = h.lget(st, n - 2)
    both = And(n >= 2, S_.pre(second, "CallbackContext", h),
               spec_cb_matches(h, top, S_.a.event, S_.a.file, S_.a.function_name),
               spec_cb_matches(h, second, S_.a.event, S_.a.file, S_.a.function_name))
    procs = S_.calls("CallbackContext.process")
    second_done = Or(*[p.args[0] == second for p in procs]) if procs else z3.BoolVal(False)
    return [("all-matching-contexts-completed", "POST", Implies(both, second_done), ["C15"])]


c.exit_check(_pcb_second)

# =============================================================================== TriggerContext
ACTION_RESULTS = ["LogActionResult", "SendSnapshotActionResult", "DeferredSnapshotActionResult", "SpanResult"]

# ---------------------------------------------------------------- TriggerContext.action_context
c = contract(TC, "TriggerContext.action_context", ["C03", "C01"])
c.param("self", OBJ("TriggerContext")).param("action", OBJ("LocationAction"))
c.logged = "action_context"
c.modifies = lambda S_: []
_ACTX_TABLE = [("Snapshot", "SnapshotActionContext"), ("Log", "LogActionContext"), ("Metric", "MetricActionContext"),
               ("Span", "SpanActionContext")]


def _actx_result(S_):
    """Call rule: one case per action type, so the new context is a concrete object on each path."""
    t = S_.old.f(S_.a.action, "LocationAction.__action_type")
    E = lambda m: S_.enum("LocationAction.ActionType", m)
    conds = [t == E(m) for m, _ in _ACTX_TABLE] + [And(*[t != E(m) for m, _ in _ACTX_TABLE])]
    k = S_.I.ctx.choose(conds, "action type")
    cls = (_ACTX_TABLE[k][1] if k < 4 else "NoActionContext")
    return VRef(S_.I.st.alloc(S_.cid(cls)))


c.result = _actx_result


def _actx_post(S_):
    h = S_.old
    t = h.f(S_.a.action, "LocationAction.__action_type")
    r = S_.result
    n = S_.new
    E = lambda m: S_.enum("LocationAction.ActionType", m)
    cases = [And(t == E(m), n.typeof(r) == S_.cid(cls)) for m, cls in _ACTX_TABLE]
    cases.append(And(*[t != E(m) for m, _ in _ACTX_TABLE], n.typeof(r) == S_.cid("NoActionContext")))
    return And(Or(*cases), Val.is_VRef(r), Val.r(r) >= ALLOC_BASE,
               n.f(r, "trigger_context") == S_.a.self, n.f(r, "location_action") == S_.a.action,
               n.f(r, "_triggered") == VFalse)


c.ens("context-for-the-action-type", _actx_post)

# ---------------------------------------------------------------- TriggerContext.__exit__
c = contract(TC, "TriggerContext.__exit__", ["C01", "C20"])
c.param("self", OBJ("TriggerContext"))
c.param("exception_type", VAL).param("exception_value", VAL).param("exception_traceback", VAL)
c.req("results-are-action-results", lambda S_: S_.elems(
    S_.old.f(S_.a.self, "TriggerContext.__results"), OBJ("ActionResult", subclasses=ACTION_RESULTS, inv=False)))
c.result = NONE
c.logged = "TriggerContext.__exit__"
c.modifies = lambda S_: [("all",)]
c.ens("does-not-suppress", lambda S_: Val.is_VNone(S_.result))
# per-result guard: a result that fails with an Exception (e.g. a raising logger plugin) does not stop the others;
# only a non-Exception BaseException may leave (it is contained by trace_call)
c.sig("BaseException", "non-Exception-failure", post=lambda S_: Not(S_.I.exc_isa(S_.exc, "Exception")))
c.loop("iter:self.__results", body_no_raise=False)

# ---------------------------------------------------------------- MetricActionContext / SpanActionContext.can_trigger
from .c10_conditions import _can_trigger_post, ACTION_CTXS

for _file, _cls, _flag in [("processor/context/metric_action.py", "MetricActionContext", "has_metric_processor"),
                           ("processor/context/span_action.py", "SpanActionContext", "has_span_processor")]:
    c = contract(_file, _cls + ".can_trigger", ["C10", "C17"] if _cls.startswith("Metric") else ["C10"])
    c.param("self", OBJ(_cls))
    c.result = BOOL
    c.logged = "can_trigger"
    c.modifies = lambda S_: []

    c.ens("limits-then-condition-when-a-processor-is-active", lambda S_: Implies(bv(S_.result), _can_trigger_post(S_)))

    def _log(S_, kind, _flag=_flag):
        flags = S_.calls(_flag)
        if kind != "return":
            return [("processor-flag-consulted", "LOG", z3.BoolVal(len(flags) == 1), None)]
        if len(flags) != 1:
            return [("processor-flag-consulted", "LOG", z3.BoolVal(False), None)]
        has = bv(flags[0].result)
        return [("no-processor-no-trigger", "POST", Implies(Not(has), And(Not(bv(S_.result)),
                 z3.BoolVal(len(S_.calls("evaluate_expression")) == 0))), None),
                ("with-processor-base-rule", "POST", Implies(has, _can_trigger_post(S_)), None)]
    c.exit_check(_log)
    from .c10_conditions import _str_raises_post
    c.sig("BaseException", "condition-value-str-raises", post=_str_raises_post)

CS = "config/config_service.py"
for _flag in ("has_metric_processor", "has_span_processor"):
    c = contract(CS, "ConfigService." + _flag, ["C17", "C20"], coarse=True)
    c.param("self", OBJ("ConfigService"))
    c.result = BOOL
    c.logged = _flag
    c.modifies = lambda S_: []

# =============================================================================== TriggerHandler.trace_call
import ast as _ast


def _provider_is_deque(index):
    """Link to TriggerHandler.__init__: the per-thread default is `lambda: deque()` (read from the source)."""
    fi = index.function(TH, "TriggerHandler.__init__")
    for n in _ast.walk(fi.node):
        if isinstance(n, _ast.Call) and getattr(n.func, "id", None) == "ThreadLocal" and n.args:
            a = n.args[0]
            return isinstance(a, _ast.Lambda) and isinstance(a.body, _ast.Call) and \
                getattr(a.body.func, "id", None) == "deque" and not a.body.args
    return False


def _trace_init(S_):
    from pyvc.core import Unsupported
    if not _provider_is_deque(S_.I.index):
        raise Unsupported("TriggerHandler.__init__ no longer passes `lambda: deque()` to ThreadLocal")
    h = S_.new
    tl = h.f(S_.a.self, "_callbacks")

    def provided(S2, res):
        return And(S2.is_fresh(res, "deque"), S2.new.llen(res) == 0)
    S_.I.st.ghost.setdefault("provider_specs", {})[str(z3.simplify(tl))] = provided


c = contract(TH, "TriggerHandler.trace_call", ["C01", "C03", "C04", "C10", "C11", "C15"])
c.param("self", OBJ("TriggerHandler")).param("frame", FRAME()).param("event", STR).param("arg", ANY)
c.req("store-invariant", lambda S_: store_inv(S_.old, S_.a.self, S_))
c.init_ghost = _trace_init
c.protects = handler_private
c.result = VAL
c.modifies = lambda S_: [("all",)]
c.max_paths = 3000
# C01: signals {} - nothing is ever raised into the application


def _keeps_tracing(S_):
    """Tracing stays on: the handler returns itself as local trace function, or None only when nothing is
    installed at all."""
    ob = S_.I.pyobj(S_.result)
    if isinstance(ob, BoundMethod) and getattr(ob.func, "fi", None) is not None and \
            ob.func.fi.name == "trace_call":
        return ob.self_term == S_.a.self
    n_old = S_.old.llen(S_.old.f(S_.a.self, "_tp_config"))
    return And(Val.is_VNone(S_.result), n_old == 0)


c.ens("tracing-stays-on", _keeps_tracing, props=["C01"])
c.ens("store-invariant-kept", lambda S_: store_inv(S_.new, S_.a.self, S_), props=["C01", "C15"])


def _trace_log(S_, kind):
    """C03: actions come only from __actions_for_location(location_from_event(event, frame)); with nothing
    matching there is no action context at all.  C15: callbacks are examined only on line/return/exception."""
    out = []
    afl = S_.calls("__actions_for_location")
    pcb = S_.calls("__process_call_backs")
    if afl:
        a = afl[0].args
        code = S_.old.f(S_.a.frame, "f_code")
        out.append(("location-from-this-event", "LOG", And(
            a[1] == S_.a.event, a[2] == Val.VStr(Basename(sv(S_.old.f(code, "co_filename")))),
            a[3] == S_.old.f(S_.a.frame, "f_lineno"), a[4] == S_.old.f(code, "co_name"), a[5] == S_.a.frame), ["C03"]))
    out.append(("matching-consulted-at-most-once", "LOG", z3.BoolVal(len(afl) <= 1), ["C03"]))
    if pcb:
        out.append(("callbacks-only-on-line-return-exception", "LOG",
                    And(len(pcb) == 1, ev_in(S_.a.event, ["line", "return", "exception"]), pcb[0].args[3] == S_.a.frame,
                        pcb[0].args[2] == S_.a.arg), ["C15"]))
    else:
        out.append(("pending-callbacks-examined", "LOG",
                    Not(And(ev_in(S_.a.event, ["line", "return", "exception"]), cb_is_set(S_.old, S_.a.self))), ["C15"]))
    return out


c.exit_check(_trace_log)


def _actions_loop_body(L):
    """One iteration of the action loop: exactly one context, for exactly this action; the action runs iff
    the context allowed it; the context is closed exactly once, last (so a fire is recorded iff it ran)."""
    log = L.iter_log()
    ctxs = [e for e in log if e.label == "action_context"]
    if len(ctxs) != 1:
        return z3.BoolVal(False)
    target = L.seq.element(L.index)
    ctx_obj = ctxs[0].result
    cans = [e for e in log if e.label == "can_trigger"]
    procs = [e for e in log if e.label == "process"]
    exits = [e for e in log if e.label == "ActionContext.__exit__"]
    ok = And(ctxs[0].args[1] == target, len(exits) == 1, len(cans) <= 1, len(procs) <= 1)
    if exits:
        ok = And(ok, exits[0].args[0] == ctx_obj, z3.BoolVal(log[-1] is exits[0] or log[-1].label.startswith("deep.logging")))
    if procs:
        ok = And(ok, len(cans) == 1, procs[0].args[0] == ctx_obj)
        if cans and cans[0].result is not None:
            ok = And(ok, bv(cans[0].result))
    elif cans and cans[0].result is not None and not cans[0].raised:
        ok = And(ok, Not(bv(cans[0].result)))
    return ok


c.loop("iter:actions", body_ensures=_actions_loop_body, body_no_raise=True)
