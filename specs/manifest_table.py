"""Which properties are claimed, with level text and trusted-base note (source of MANIFEST.json)."""
CHECKS = {
    "C04": {
        "text": "For every timestamp, counter state and fire_count/fire_period/window setting, LocationAction.can_trigger "
                "returns exactly the limit predicate of the statement (both directions), fire/record_triggered update "
                "the counters exactly; proved per path from the current source.",
        "note": "int(str) is an uninterpreted partial function shared by code and spec; config values are str or int "
                "(from the two call sites); thread interleavings are not modelled (sequential contracts only).",
    },
}
CHECKS["C10"] = {
    "text": "ActionContext.can_trigger is proved equal to (limits, then condition truthiness by the str2bool table) with "
            "no expression evaluated when the limits fail; process/__exit__ record a fire iff the action ran; "
            "evaluate_expression is proved to call eval exactly once with the paused frame's globals and locals and "
            "to return (not raise) any BaseException.",
    "note": "eval() itself is trusted (runs host code, may raise anything, side-effect free by the property's own "
            "assumption); str()/lower()/strip() uninterpreted; metric/log expression call sites are covered by C16/C17.",
}
NOT_APPLICABLE = {}
