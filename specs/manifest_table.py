"""Which properties are claimed, with level text and trusted-base note (source of MANIFEST.json)."""
CHECKS = {
    "C04": {
        "text": "For every timestamp, counter state and fire_count/fire_period/window setting, LocationAction.can_trigger "
                "returns exactly the limit predicate of the statement (both directions), fire/record_triggered update "
                "the counters exactly; proved per path from the current source.",
        "note": "int(str) is an uninterpreted partial function shared by code and spec; config values are str or int "
                "(from the two call sites); thread interleavings are not modelled (sequential contracts only).",
    },
}
NOT_APPLICABLE = {}
