"""Which properties are claimed, with level text and trusted-base note (source of MANIFEST.json)."""
CHECKS = {
    "C04": {
        "text": "For every timestamp, counter state and fire_count/fire_period/window setting, LocationAction.can_trigger "
                "returns exactly the limit predicate of the statement (both directions), fire/record_triggered update "
                "the counters exactly; proved per path from the current source.",
        "note": "int(str) is an uninterpreted partial function shared by code and spec; config values are str or int "
                "(from the two call sites); thread interleavings are not modelled (sequential contracts only).",
    },
}
CHECKS["C10"] = {
    "text": "ActionContext.can_trigger is proved equal to (limits, then condition truthiness by the str2bool table) with "
            "no expression evaluated when the limits fail; process/__exit__ record a fire iff the action ran; "
            "evaluate_expression is proved to call eval exactly once with the paused frame's globals and locals and "
            "to return (not raise) any BaseException.",
    "note": "eval() itself is trusted (runs host code, may raise anything, side-effect free by the property's own "
            "assumption); str()/lower()/strip() uninterpreted; metric/log expression call sites are covered by C16/C17.",
}
CHECKS["C01"] = {
    "text": "TriggerHandler.trace_call is proved to let no exception of any class escape (signals {} over every raise "
            "permitted by its callees' contracts: plugins, evaluated expressions, host dunder methods), to return itself "
            "(tracing stays on) or None only when nothing is installed, to keep the per-thread callback store consistent "
            "on every exit, and to perform no write on containers owned by the paused frame; the callees it relies on "
            "(matching, callback processing, context open/close, expression evaluation) are each proved against their own bodies.",
    "note": "whole-program observational equivalence is decomposed into these per-call clauses; the action bodies "
            "(_process_action, result.process, callback.process) enter as 'may raise anything / may modify anything but the "
            "handler's private state' contracts (encapsulation assumption); frame objects and logging are trusted; no "
            "asynchronous exceptions.",
}
CHECKS["C03"] = {
    "text": "LineLocation/FunctionLocation.at_location are proved equal to the statement's match predicate for every event, "
            "file, line and name; location_from_event returns exactly (event, basename(co_filename), f_lineno, co_name); "
            "__actions_for_location grows its result by exactly the matching trigger's actions per iteration; trace_call "
            "opens one context per collected action, independently guarded, and none when nothing matches.",
    "note": "for-each lifting of the per-iteration contracts is trusted; which events CPython delivers is trusted; "
            "method tracepoints without a name are outside the statement (their safety is C01); list element typing is declared.",
}
CHECKS["C11"] = {
    "text": "The four action builders and build_trigger are proved against the documented argument table over symbolic "
            "argument maps (every combination of present/absent/arbitrary text values): which actions exist, their exact "
            "configs and defaults, location kind and position from stage/method_name/span.",
    "note": "args are Dict[str,str]; Position.from_stage by its own contract; convert_response / add_custom grouping clauses "
            "are proved separately: convert_response skips what it cannot interpret and the only key a tracepoint touches is its own location id (whole-view clause per iteration).",
}
CHECKS["C15"] = {
    "text": "ThreadLocal get/set/clear/is_set are proved to touch only the calling thread's entry of the instance's own store; CallbackContext.at_location equals the (file, function, opening-event) table; __process_call_backs processes the top pending context exactly once iff it matches and leaves the store consistent on every exit; the deferred snapshot callback captures the value returned / exception raised of this very event (arg) once, with the action context that collected the snapshot, adds it to the pending snapshot and hands that snapshot over exactly once; span callbacks close every span once.",
    "note": "frame identity and completion of all matching contexts are recorded known findings; thread interleavings and CPython's event order for generators are not modelled; CallbackContext.process enters by a coarse contract.",
}
CHECKS["C05"] = {
    "text": "truncate_string (cut + flag exactly when cut), process_list_breadth_first (capped prefix in order, unbounded "
            "quantified loop invariant), process_child_nodes (depth cut), check_var_count/search_function (budget tested "
            "before each node, at most one entry per node), Node.add_children (children one level deeper) and "
            "breadth_first_search (FIFO work list: oldest node first, rest then children in order) are proved from source; "
            "collection_config builds the limits from the action's own config.",
    "note": "breadth-first order = FIFO work list + children one level below their parent, composed by an argument in "
            "DESIGN.md (not a mechanised lemma); the limits are in effect the built-in defaults (arguments naming them are never copied into the action's configuration); the wall-clock "
            "budget is floating point and not decided; list element typing is declared.",
}
CHECKS["C06"] = {
    "text": "Under the assumption that host dunder methods fail with Exception subclasses only, var_modifiers, "
            "variable_to_string, process_variable, search_function, VariableSetProcessor.process_variable, eval_watch, "
            "process_capture_variable, _process_frame and collect are each proved to let nothing escape for every host "
            "value (signals {}); a snapshot action starts from its own empty table and identity cache.",
    "note": "child discovery may fail (declared signal) and is contained per node in search_function; "
            "SnapshotActionContext._process_action is verified as a whole (19 paths; path cap 40: a body that needs more is undecided); "
            "__dict__ of an object is assumed to be an exact dict; protobuf conversion is C08.",
}
CHECKS["C02"] = {
    "text": "Per-function fidelity contracts proved from source: process_variable records the value's real type name, "
            "its text form cut to the limit and its identity under the node's name; variable_to_string gives the element "
            "count for exact containers and str() otherwise; _process_frame copies file/function/line of the frame and "
            "processes exactly that frame's locals with the action's limits; collect walks f_back one frame per step "
            "with the frame's index; should_collect_vars is the frame_type table; the snapshot names its tracepoint; "
            "watches are evaluated once each in the trigger's frame.",
    "note": "whole-graph fidelity = per-node contract + FIFO search + per-step stack walk, composed by an argument "
            "(DESIGN.md), not a mechanised lemma; _process_action is verified as a whole (one collection from an empty table and cache, watches merged from tables of their own, exactly one snapshot result, the log line as a result of its own); children-by-kind is "
            "checked for sequences (exact prefix) and only structurally for dicts/objects; CPython delivers events on the "
            "reaching thread (trusted).",
}
CHECKS["C07"] = {
    "text": "process_variable is proved to reference (not re-record, not re-expand) an object whose identity is cached "
            "and to give a new object the next id with exactly one table entry, all other entries untouched (whole-view "
            "postcondition); search_function adds one reference per node and expands only new objects; "
            "merge_var_lookup is a union; each snapshot starts from its own empty table and cache; watches use the "
            "snapshot's identity cache.",
    "note": "id() uniqueness among live objects is assumed; equal primitives share identity in the model (interning); "
            "closure of the final table is not proved end-to-end (the BFS contract is about order, not about the table); "
            "termination is not proved.",
}
CHECKS["C14"] = {
    "text": "TriggerHandler.start is proved to save the previous sys/threading hooks before installing its own trace function in both, and to touch nothing when tracing is disabled; shutdown puts back exactly the saved hooks and leaves foreign hooks alone when it never installed its own; Deep.shutdown is proved to run every step exactly once and every plugin's shutdown, to let nothing escape and to end marked stopped, for every subset of failing steps; nothing at all happens when not started.",
    "note": 'sys/threading trace accessors are ghost state (trusted); step failures are Exceptions (KeyboardInterrupt etc. out of scope); Deep.start is proved to do nothing when already started and to run every start step once in order (C20 contract) - a start that fails half way (bad settings) leaves the agent not started with hooks possibly installed: not decided; liveness of the timer thread is not decided here.',
}
CHECKS["C17"] = {
    "text": "MetricActionContext._process_action is proved to report each metric once per processor through the "
            "operation named by the lower-cased type with name, evaluated labels, namespace (default 'deep'), help, unit "
            "and evaluated value; _process_metric gives the expression as a number or 1, labels from static values or "
            "str(expression in the frame); with no processor can_trigger is False and nothing is evaluated.",
    "note": "the processor list is the ConfigService property by contract (plugin generator not re-proved); floats are "
            "reals; grpc metric-definition conversion is not covered.",
}
CHECKS["C19"] = {
    "text": "ConfigService.__getattribute__ is proved equal to the precedence chain own attribute > code value > module "
            "default > DEEP_<KEY> environment > None with callables called; is_app_frame is proved (quantified "
            "search-loop invariants) to classify exactly by exclude-wins / include / app-root with the matching prefix; "
            "IN_APP_INCLUDE/EXCLUDE yield flat text lists; the poll interval and SERVICE_SECURE are accepted as text or "
            "typed values; deep.start resolves the application root as code value > DEEP_APP_ROOT > folder above the caller and hands every other code-supplied setting over unchanged.",
    "note": "own attributes / module attributes / environment are abstract partial maps; string prefix reasoning by "
            "z3 with cvc5 as second back end; deep.start is verified as a prefix (up to the construction of the ConfigService: APP_ROOT given in code > DEEP_APP_ROOT > calculated, no other setting touched; inspect.stack is a trusted model); the documentation is not covered.",
}
CHECKS["C20"] = {
    "text": 'Plugin loading is proved element by element: an entry that cannot be imported yields nothing and does not end the import generator; a class that fails to construct or a plugin that is switched off is skipped, an active one is added exactly once, constructed with the config; the result is sorted once, ascending, by order() (None = 0). Plugin.is_active reads its own PLUGIN_<NAME> switch (absent -> active, otherwise the truthy table of its text). The ConfigService views yield exactly the plugins of their kind in loading order. Deep.start does nothing when started, otherwise loads plugins from the configured list, builds the resource asking every provider once (a failing provider costs only its own contribution), and starts tracing, connection and polling once each in order. Snapshot decoration asks every decorator once for this snapshot and action, merges only returned decorations, contains a failing decorator, and merges the result into the snapshot; the send result hands over exactly once after decorating. Per-iteration isolation is also proved for metric dispatch, span creation, span close and plugin shutdown; TriggerContext.__exit__ contains exceptions per result.',
    "note": "plugin objects and classes are host values with the documented callback interface (is_active/order/resource/decorate/... may each raise any Exception; name is a plain attribute); generators are consumed eagerly (producer/consumer interleaving not modelled); importlib is a trusted model; a plugin's order() failing escapes load_plugins (declared signal); decorations are assumed to hold primitive values (domain of the C18 contracts).",
}
CHECKS["C08"] = {
    "text": "Every conversion helper (variable id, variable, frame, watch, tracepoint, variable table, attribute value, "
            "attribute list, resource) is proved to build a message whose every field equals the corresponding source "
            "field (text: unchanged when encodable, otherwise an encodable escape; lists and the table element by element "
            "and key by key, by loop invariant / for-each lifting), to fail only when the source lies outside the "
            "collector's shapes, and convert_snapshot is proved never to discard (return None for) a snapshot of those "
            "shapes and to carry every field; GRPCService.metadata is proved to return what the configured provider "
            "supplies (built once, then reused) and BasicAuthProvider.provide the documented pair; the send and poll call "
            "sites pass that metadata (C09 / C12 contracts).",
    "note": "protobuf constructors are trusted record constructors with the installed descriptors' type/range/UTF-8 checks; "
            "serialisation itself (bytes round trip) is exercised only by the replay driver; the shapes of collected "
            "snapshots (types, ranges, a watch has a result or an error) are preconditions cross-referenced to the "
            "C02/C06/C18 contracts, not re-proved here; dict-valued and nested-sequence attribute values are outside the "
            "contract domain (the store cannot hold them); lone-surrogate text reaches the wire escaped, not unchanged "
            "(known finding).",
}
CHECKS["C09"] = {
    "text": "push_snapshot is proved to do exactly one submission of the push task with the snapshot and nothing else "
            "on the calling thread; submit_task refuses visibly when closed and otherwise submits exactly once and tracks "
            "the future before attaching the completion callback; _push_task converts once and sends exactly once iff "
            "the conversion produced a message, with the auth metadata; flush closes the handler, waits at most once per "
            "pending task and lets no task error escape.",
    "note": "ThreadPoolExecutor/Future are trusted (run exactly once on a worker, result() may raise); schedules "
            "(flush racing with completion or with submission, tasks slower than the 10 s wait) are not modelled.",
}
CHECKS["C12"] = {
    "text": "Sequential contracts of the configuration service proved from source: a NO_CHANGE answer writes only the "
            "poll time; an update replaces hash and configuration together and queues exactly one listener update "
            "carrying them; every listener receives the polled configuration followed by the code-registered "
            "tracepoints and a failing listener does not stop the others; LongPoll.poll sends the current hash with "
            "auth metadata, and when it fails no configuration state was touched; the handler's listener installs every update it is handed; the timer loop calls the repeated function once per tick and no Exception from it ends the loop; LongPoll.start has created and started the repeating timer when it returns, whatever the first poll did.",
    "note": "the schedule clause ('never an older configuration under every interleaving of the two workers') is "
            "outside this technique: no thread semantics.",
}
CHECKS["C13"] = {
    "text": "add_custom is proved to build the trigger from the given arguments, append it and return the registration's "
            "own fresh id; remove_custom removes exactly the registration recorded for the handle (others keep their "
            "order), does nothing for an unknown or already used handle and never touches the service configuration; "
            "listeners get service tracepoints followed by code-registered ones.",
    "note": "uuid4 values are assumed distinct; Deep.register_tracepoint / TracepointRegistration are pass-through "
            "wrappers (inlined); interleaved service updates are C12's schedule clause.",
}
CHECKS["C16"] = {
    "text": "process_log is proved to return '[deep] ' + the formatter's rendering of the configured template, to "
            "evaluate every {field} exactly once as a LOG watch in the paused frame, to use eval_watch's string form "
            "(error text on failure) for it and to collect its watch result; the log action attaches exactly one result "
            "with that text; LogActionResult.process passes (message, tracepoint id, context id) in their own places; the logger is looked up among the currently loaded plugins on every use (ConfigService.tracepoint_logger writes nothing); PythonPlugin.log_tracepoint logs the rendered message verbatim followed by the two ids.",
    "note": "string.Formatter.vformat is a trusted model (literal text kept, braces unescaped, one get_field per field; "
            "checked for an arbitrary field by for-each lifting); the snapshot+log combination is covered by the full _process_action contract (see C02).",
}
CHECKS["C18"] = {
    "text": 'BoundedAttributes.__setitem__ is proved against a whole-view specification over the (key order, map) view: frozen -> TypeError and nothing changes; capacity 0 -> only the drop is counted; invalid value -> nothing changes; existing key -> replaced and moved to the end without a drop; full -> the OLDEST entry is evicted and the drop counted; every other key untouched; capacity never exceeded.  __delitem__, __init__ (filled through the same operation, frozen last), merge_in, copy (a copy), the value-cleaning rule and Resource.merge (other wins key by key, schema rule, neither operand modified) are proved likewise.',
    "note": "OrderedDict is a trusted model (dict + key list with a representation invariant); the contracts cover stores of primitive values (sequence cleaning in _clean_attribute is outside the engine's subset; the store invariant allows sequences of primitives so that C08 covers them on the wire); Resource.create and the environment detector are covered at the level of which resources are merged in which order (their attribute contents follow from merge's contract by argument; the contents of the module-level built-in resource are a declared fact); plugin resources in Deep.start are merged in provider order (C20 contract); bytes subclasses are not modelled.",
}
NOT_APPLICABLE = {}
