"""C09 delivery off the application thread, exactly once; flush drains."""
from .common import *
from pyvc.core import LogEntry, SymCallable
from pyvc.contract import extern

TK = "task/__init__.py"
PS = "push/push_service.py"


@class_invariant("TaskHandler")
def inv_task_handler(S_, t):
    h = S_.new
    kk = z3.Const("k!thinv", Val)
    return And(Val.is_VBool(h.f(t, "_open")), S_.pre(h.f(t, "_pending"), "dict"), h.dlen(h.f(t, "_pending")) >= 0,
               # an empty dictionary has no keys (the dictionary model keeps length and domain separately)
               Implies(h.dlen(h.f(t, "_pending")) == 0, z3.ForAll([kk], Not(h.dhas(h.f(t, "_pending"), kk)))),
               S_.dict_values(h.f(t, "_pending"), OBJ("Future", inv=False)),
               S_.pre(h.f(t, "_pool"), "ThreadPoolExecutor"), S_.pre(h.f(t, "_lock"), "Lock"),
               Val.is_VInt(h.f(t, "_job_id")))


@extern("ThreadPoolExecutor.submit", "runs the callable exactly once on a worker thread; returns its Future")
def _pool_submit(it, args, kwargs, node, anchor):
    fut = VRef(it.st.alloc(it.table.id("Future")))
    it.st.log.append(LogEntry("pool.submit", list(args), kwargs, fut, anchor))
    return fut


@extern("Future.add_done_callback", "calls the callback when the future is done (possibly at once, on any thread)")
def _add_done(it, args, kwargs, node, anchor):
    it.st.log.append(LogEntry("add_done_callback", list(args), kwargs, None, anchor))
    return VNone


@extern("Future.result", "waits; raises the task's own exception, TimeoutError or CancelledError")
def _future_result(it, args, kwargs, node, anchor):
    it.st.log.append(LogEntry("Future.result", list(args), kwargs, None, anchor))
    it.st.log[-1].pre = it.st.snapshot()
    # ghost: this future has been waited for (whether the wait ends with a value, the task's error or a timeout)
    if it.tag(args[0], "future") == "ref":
        it.st.set_field(Val.r(args[0]), "$waited", VTrue)
        it.st.writes.pop()
    if it.ctx.branch(z3.Bool("future_result_raises!%d" % len(it.st.log)), "result raises"):
        it.raise_symbolic(anchor, "Exception", "task-failed-or-timeout")
    return it.ctx.fresh("task_result", Val)


@extern("Future.exception", "the exception the task ended with, or None")
def _future_exception(it, args, kwargs, node, anchor):
    return it.ctx.fresh("task_exception", Val)


# ---------------------------------------------------------------- TaskHandler.submit_task
c = contract(TK, "TaskHandler.submit_task", ["C09"])
c.param("self", OBJ("TaskHandler")).param("task", VAL).param("args", P("tuple"))
c.result = FRESH("Future")
c.logged = "submit_task"
c.modifies = lambda S_: [("dict", S_.old.f(S_.a.self, "_pending")), ("field", S_.a.self, "_job_id")]
c.sig("IllegalStateException", "refused-after-close", cond=lambda S_: Not(bv(S_.old.f(S_.a.self, "_open"))))


def _submit_log(S_, kind):
    """open: the task is handed to the pool exactly once, with its arguments, and its future is tracked before
    the completion callback is attached; closed: refused visibly, nothing submitted."""
    subs = S_.calls("pool.submit")
    opened = bv(S_.old.f(S_.a.self, "_open"))
    if kind == "raise":
        return [("nothing-submitted-when-refused", "LOG", And(Not(opened), z3.BoolVal(len(subs) == 0)), None)]
    if kind != "return":
        return []
    cbs = S_.calls("add_done_callback")
    out = [("submitted-exactly-once", "LOG", And(opened, z3.BoolVal(len(subs) == 1)), None)]
    if subs:
        s = subs[0]
        pend = S_.old.f(S_.a.self, "_pending")
        nid = S_.f(S_.a.self, "_job_id")
        out.append(("the-task-with-its-arguments", "LOG", And(s.args[0] == S_.old.f(S_.a.self, "_pool"),
                                                              s.args[1] == S_.a.task, s.args[2] == S_.a.args,
                                                              S_.result == s.result), None))
        out.append(("future-tracked-under-a-new-id", "POST", And(
            iv(nid) == iv(S_.old.f(S_.a.self, "_job_id")) + 1, S_.new.dhas(pend, nid), S_.new.dget(pend, nid) == s.result), None))
        out.append(("tracked-before-completion-callback", "LOG", z3.BoolVal(len(cbs) == 1), None))
    return out


c.exit_check(_submit_log)

# ---------------------------------------------------------------- TaskHandler.flush
c = contract(TK, "TaskHandler.flush", ["C09", "C14"])
c.param("self", OBJ("TaskHandler"))
c.result = NONE
c.logged = "flush"
c.host_ops_exc_base = "Exception"
c.modifies = lambda S_: [("all",)]
c.protects = lambda S_: {"fields": ["_pending", "_open", "_pool", "_lock"], "lists": [], "dicts": []}
# flushing returns normally whether the pending tasks succeeded or failed: nothing escapes
c.ens("closed-afterwards", lambda S_: S_.f(S_.a.self, "_open") == VFalse)


def _flush_body(L):
    """every task that is still pending is waited for (once)"""
    rs = [e for e in L.iter_log() if e.label == "Future.result"]
    from pyvc.contract import Heap
    me = L.local("self")
    # "work submitted after closing is refused": the handler is closed BEFORE it starts waiting, so nothing can be
    # accepted while (or after) the pending tasks are drained
    closed = [Heap(None, e.pre).f(me, "_open") == VFalse for e in rs]
    return [("waited-at-most-once-per-task", z3.BoolVal(len(rs) <= 1)),
            ("closed-before-waiting", And(*closed) if closed else z3.BoolVal(True))]


def _all_waited(S_):
    """'flush drains': every task that was pending when flush started has been waited for when it returns - also the ones
    after a task that failed"""
    h, n = S_.old, S_.new
    P = h.f(S_.a.self, "_pending")
    k = z3.Const("k!flw", Val)
    return z3.ForAll([k], Implies(h.dhas(P, k), n.f(h.dget(P, k), "$waited") == VTrue))


c.ens("every-pending-task-is-waited-for", _all_waited)


def _flush_inv(L):
    h, n = L.at_entry(), L.now()
    me = L.pre_local("self")
    P = h.f(me, "_pending")
    pos = L.seq.pos()
    k = z3.Const("k!fli", Val)
    return And(n.f(me, "_open") == VFalse,
               z3.ForAll([k], Implies(And(h.dhas(P, k), z3.Select(pos, k) < L.index), n.f(h.dget(P, k), "$waited") == VTrue)))


c.loop("iter:dict(self._pending).keys()", invariant=_flush_inv, body_ensures=_flush_body, body_no_raise=True,
       modifies=lambda L: [("field*", "$waited")])

# ---------------------------------------------------------------- PushService.push_snapshot / _push_task
c = contract(PS, "PushService.push_snapshot", ["C09"])
c.param("self", OBJ("PushService", inv=False)).param("snapshot", VAL)
c.req("task-handler", lambda S_: S_.I.assume_shape(S_.old.f(S_.a.self, "task_handler"), OBJ("TaskHandler")) or z3.BoolVal(True))
c.result = NONE
c.logged = "push_snapshot"
c.modifies = lambda S_: [("all",)]
c.sig("IllegalStateException", "refused-after-close")


def _push_log(S_, kind):
    """handing over = exactly one submission of the push task with this snapshot; nothing is converted or sent on
    the calling (application) thread."""
    subs = S_.calls("submit_task")
    bad = S_.calls("convert_snapshot") + S_.calls("stub.send")
    out = [("nothing-converted-or-sent-on-the-calling-thread", "LOG", z3.BoolVal(len(bad) == 0), None),
           ("submitted-exactly-once", "LOG", z3.BoolVal(len(subs) == 1), None)]
    if subs:
        ob = S_.I.pyobj(subs[0].args[1])
        is_task = getattr(getattr(getattr(ob, "func", None), "fi", None), "name", None) == "_push_task" and \
            ob.self_term.eq(S_.a.self)
        args = subs[0].args[2]
        out.append(("the-push-task-with-this-snapshot", "LOG", And(z3.BoolVal(bool(is_task)),
                    S_.new.llen(args) == 1, S_.new.lget(args, 0) == S_.a.snapshot), None))
    return out


c.exit_check(_push_log)


# ---------------------------------------------------------------- PushService._push_task
@extern("deepproto.proto.tracepoint.v1.tracepoint_pb2_grpc.SnapshotServiceStub", "gRPC stub object bound to a channel")
def _stub_new(it, args, kwargs, node, anchor):
    rid = it.st.alloc(it.table.id("proto"))
    it.st.set_field(z3.IntVal(rid), "$stub_channel", args[0] if args else VNone)
    it.st.writes.pop()
    it.st.ghost.setdefault("stubs", []).append(rid)
    return VRef(rid)


@extern("proto.send", "SnapshotServiceStub.send: one network request; may fail")
def _stub_send(it, args, kwargs, node, anchor):
    it.st.log.append(LogEntry("stub.send", list(args), kwargs, None, anchor))
    if it.ctx.branch(z3.Bool("send_fails!%d" % len(it.st.log)), "send fails"):
        it.raise_symbolic(anchor, "Exception", "send-failed")
    return VRef(it.st.alloc(it.table.id("proto")))


c = contract("push/__init__.py", "convert_snapshot", [], coarse=True)
c.param("snapshot", VAL)
c.result = P("val")
c.logged = "convert_snapshot"
c.modifies = lambda S_: []
c.ens("proto-or-none", lambda S_: Or(Val.is_VNone(S_.result), And(Val.is_VRef(S_.result), S_.new.typeof(S_.result) == S_.cid("proto"))))

c = contract("grpc/grpc_service.py", "GRPCService.metadata", [], coarse=True)
c.param("self", VAL)
c.result = P("val")
c.logged = "grpc.metadata"
c.modifies = lambda S_: [("all",)]
c.sig("Exception", "auth-provider-failed")

c = contract(PS, "PushService._push_task", ["C09", "C08"])
c.param("self", OBJ("PushService", inv=False)).param("snapshot", OBJ("EventSnapshot"))
c.req("grpc-service", lambda S_: S_.I.assume_shape(S_.old.f(S_.a.self, "grpc"), OBJ("GRPCService", inv=False)) or z3.BoolVal(True))
def _snapshot_domain(S_):
    """the snapshot handed over by the collector: convert_snapshot's domain (C08)"""
    from .c08_wire import _snapshot_domain as dom, _snapshot_shapes
    _snapshot_shapes(S_)
    return dom(S_)


c.req("snapshot-as-collected", _snapshot_domain)
c.result = NONE
c.modifies = lambda S_: [("all",)]
# a failure to send is contained on the worker (the future records it): it is an allowed outcome of the task
c.sig("Exception", "send-or-auth-failed")


def _push_task_log(S_, kind):
    """converted exactly once; sent exactly once iff the conversion produced a message - never twice - with the
    auth metadata of the grpc service."""
    conv = S_.calls("convert_snapshot")
    sends = S_.calls("stub.send")
    meta = S_.calls("grpc.metadata")
    out = [("converted-exactly-once", "LOG", And(z3.BoolVal(len(conv) == 1), conv[0].args[0] == S_.a.snapshot if conv else z3.BoolVal(False)), None),
           ("never-sent-twice", "LOG", z3.BoolVal(len(sends) <= 1), None)]
    if conv and not conv[0].raised and kind == "return":
        out.append(("sent-iff-converted", "LOG", Val.is_VNone(conv[0].result) if not sends else Not(Val.is_VNone(conv[0].result)), None))
    if sends:
        md = sends[0].kwargs.get("metadata")
        out.append(("the-converted-message-with-auth-metadata", "LOG", And(
            sends[0].args[1] == conv[0].result if conv else z3.BoolVal(False),
            z3.BoolVal(md is not None and len(meta) >= 1) if True else None,
            md == meta[-1].result if (md is not None and meta) else z3.BoolVal(False)), ["C09", "C08"]))
    return out


c.exit_check(_push_task_log)
