"""C08 wire fidelity: conversion of a snapshot to its protobuf message, attribute values, auth metadata.

Protobuf message constructors are trusted record constructors (field `pb_<name>` = keyword argument) that reject
what the real ones reject (wrong type, text that is not valid UTF-8, integers out of the field's range) - the table
below is the descriptor dump of the installed deepproto package.  The fidelity statements are heap predicates
`*_repr(message, source)`; the conversion helpers establish them and the callers rely on them (modular)."""
from .common import *
from pyvc.core import LogEntry, Unsupported
from pyvc.contract import extern, REGISTRY, ExternContract
from .c18_attributes import cv_domain, attrs_domain

PU = "push/__init__.py"
GR = "grpc/__init__.py"

Utf8Ok = z3.Function("Utf8Ok", S, B)
Utf8Escape = z3.Function("Utf8Escape", S, S)

U32, U64, I64 = 2 ** 32, 2 ** 64, 2 ** 63

# kind: s(tring) b(ytes) u32 u64 i64 bool dbl enum msg | rs (repeated string) rm (repeated message) ms (map str->str) mm (map str->msg)
PROTO = {
    "Snapshot": {"ID": "b", "tracepoint": "msg", "var_lookup": "mm", "ts_nanos": "u64", "frames": "rm", "watches": "rm",
                 "attributes": "rm", "duration_nanos": "u64", "resource": "rm", "log_msg": "s"},
    "TracePointConfig": {"ID": "s", "path": "s", "line_number": "u32", "args": "ms", "watches": "rs", "targeting": "rm",
                         "metrics": "rm"},
    "WatchResult": {"expression": "s", "good_result": "msg", "error_result": "s", "from_metric": "bool", "source": "enum"},
    "Variable": {"type": "s", "value": "s", "hash": "s", "children": "rm", "truncated": "bool"},
    "VariableID": {"ID": "s", "name": "s", "modifiers": "rs", "original_name": "s"},
    "StackFrame": {"file_name": "s", "method_name": "s", "line_number": "u32", "class_name": "s", "is_async": "bool",
                   "column_number": "u32", "transpiled_file_name": "s", "transpiled_line_number": "u32",
                   "transpiled_column_number": "u32", "variables": "rm", "app_frame": "bool", "native_frame": "bool",
                   "short_path": "s"},
    "KeyValue": {"key": "s", "value": "msg"},
    "AnyValue": {"string_value": "s", "bool_value": "bool", "int_value": "i64", "double_value": "dbl",
                 "array_value": "msg", "kvlist_value": "msg", "bytes_value": "b"},
    "ArrayValue": {"values": "rm"},
    "KeyValueList": {"values": "rm"},
    "Resource": {"attributes": "rm", "dropped_attributes_count": "u32"},
}


def text_ok(v):
    return And(Val.is_VStr(v), Utf8Ok(sv(v)))


def int_in(v, lo, hi):
    return And(Val.is_VInt(v), iv(v) >= lo, iv(v) < hi)


def scalar_ok(it, kind, v):
    """what the protobuf constructor accepts for a singular field (None = leave unset)"""
    st = it.st
    if kind == "s":
        ok = text_ok(v)
    elif kind == "b":
        ok = And(Val.is_VRef(v), z3.Select(st.typeof, Val.r(v)) == it.table.id("bytes"))
    elif kind == "u32":
        ok = int_in(v, 0, U32)
    elif kind == "u64":
        ok = int_in(v, 0, U64)
    elif kind == "i64":
        ok = int_in(v, -I64, I64)
    elif kind == "bool":
        ok = Or(Val.is_VBool(v), Val.is_VInt(v))
    elif kind == "dbl":
        ok = Or(Val.is_VFloat(v), Val.is_VInt(v), Val.is_VBool(v))
    elif kind == "enum":
        ok = Val.is_VInt(v)
    elif kind == "msg":
        ok = And(Val.is_VRef(v), z3.Select(st.typeof, Val.r(v)) == it.table.id("proto"))
    else:
        raise Unsupported("proto kind " + kind)
    return Or(Val.is_VNone(v), ok)


def elem_ok(it, kind, e):
    if kind == "rs":
        return text_ok(e)
    return And(Val.is_VRef(e), z3.Select(it.st.typeof, Val.r(e)) == it.table.id("proto"))


def proto_ctor(name):
    fields = PROTO[name]

    def model(it, args, kwargs, node, anchor):
        if args:
            raise Unsupported("positional protobuf constructor arguments")
        st, ctx = it.st, it.ctx
        bad = []
        for k, v in kwargs.items():
            kind = fields.get(k)
            if kind is None:
                it.raise_("ValueError", anchor)            # no such field
            if kind in ("rs", "rm"):
                if z3.is_true(z3.simplify(Val.is_VNone(v))):
                    continue
                if it.tag(v, "proto-repeated") != "ref":
                    it.raise_("TypeError", anchor)
                r = z3.simplify(Val.r(v))
                wit = st.ghost.get("comp_witness", {}).get(r.as_long()) if z3.is_int_value(r) else None
                n = ctx.value_of(it.llen(Val.r(v)))
                if wit is not None and wit["total"]:
                    # a list built by a comprehension: its arbitrary element stands for every element
                    bad.append(Not(elem_ok(it, kind, z3.Select(it.lel(Val.r(v)), wit["idx"]))))
                elif n is not None and n <= 8:
                    for j in range(n):
                        bad.append(Not(elem_ok(it, kind, z3.Select(it.lel(Val.r(v)), z3.IntVal(j)))))
                else:
                    w = ctx.fresh("pb_bad_elem", I)       # if some element is rejected: w is such an element
                    rej = ctx.fresh("pb_rejects_" + k, B)
                    ctx.assume(Implies(rej, And(w >= 0, w < it.llen(Val.r(v)),
                                                Not(elem_ok(it, kind, z3.Select(it.lel(Val.r(v)), w))))))
                    bad.append(rej)
            elif kind in ("ms", "mm"):
                if z3.is_true(z3.simplify(Val.is_VNone(v))):
                    continue
                if it.tag(v, "proto-map") != "ref":
                    it.raise_("TypeError", anchor)
                wk = ctx.fresh("pb_bad_key", Val)
                rej = ctx.fresh("pb_rejects_" + k, B)
                val = z3.Select(z3.Select(st.dval, Val.r(v)), wk)
                vok = text_ok(val) if kind == "ms" else elem_ok(it, "rm", val)
                ctx.assume(Implies(rej, And(z3.Select(z3.Select(st.dhas, Val.r(v)), wk), Not(And(text_ok(wk), vok)))))
                bad.append(rej)
            else:
                bad.append(Not(scalar_ok(it, kind, v)))
        st.log.append(LogEntry("proto:" + name, [], dict(kwargs), None, anchor))
        if bad and ctx.branch(Or(*bad), "protobuf rejects a field"):
            it.raise_symbolic(anchor, "Exception", "protobuf-rejects-a-field")
        rid = st.alloc(it.table.id("proto"))
        for k, v in kwargs.items():
            st.set_field(z3.IntVal(rid), "pb_" + k, v)
            st.writes.pop()
        st.set_field(z3.IntVal(rid), "pb$message", VStr(name))
        st.writes.pop()
        # a oneof keeps the last member set: WatchResult.result = good_result | error_result (keyword order)
        if name == "WatchResult" and "good_result" in kwargs and "error_result" in kwargs:
            ks = list(kwargs)
            first, last = (("good_result", "error_result") if ks.index("good_result") < ks.index("error_result")
                           else ("error_result", "good_result"))
            st.set_field(z3.IntVal(rid), "pb_" + first,
                         If(Val.is_VNone(kwargs[last]), kwargs[first], VNone))
            st.writes.pop()
        st.log[-1].result = VRef(rid)
        return VRef(rid)
    return model


for _mod, _names in (("deepproto.proto.tracepoint.v1.tracepoint_pb2", ["Snapshot", "TracePointConfig", "WatchResult", "Variable",
                                                                     "VariableID", "StackFrame"]),
                     ("deepproto.proto.common.v1.common_pb2", ["KeyValue", "AnyValue", "ArrayValue", "KeyValueList"]),
                     ("deepproto.proto.resource.v1.resource_pb2", ["Resource"])):
    for _n in _names:
        REGISTRY["extern:%s.%s" % (_mod, _n)] = ExternContract(
            "%s.%s" % (_mod, _n), proto_ctor(_n), "protobuf record constructor: field = keyword; rejects wrong types, "
            "text that is not valid UTF-8 and integers outside the field's range (descriptor table in specs/c08_wire.py)")

WatchSourceValue = z3.Function("WatchSourceValue", Val, I)
SOURCES = ("WATCH", "LOG", "METRIC", "CAPTURE")


@extern("deepproto.proto.tracepoint.v1.tracepoint_pb2.WatchSource.Value", "enum lookup by name: ValueError for an unknown name")
def _watch_source_value(it, args, kwargs, node, anchor):
    ok = Or(*[args[0] == VStr(n) for n in SOURCES])
    if not it.ctx.branch(ok, "known watch source"):
        it.raise_("ValueError", anchor)
    for i, n in enumerate(SOURCES):
        it.ctx.assume(WatchSourceValue(VStr(n)) == i)
    return Val.VInt(WatchSourceValue(args[0]))


def pb(h, m, k):
    return h.f(m, "pb_" + k)


def is_msg(S_, h, m, name):
    return And(S_.isinst(m, "proto", h), h.f(m, "pb$message") == VStr(name))


def carried(dst, src):
    """a text field on the wire: the source text when it can be encoded, otherwise an encodable escape of it;
    an unset (None) field stays unset"""
    return And(Implies(Or(Not(Val.is_VStr(src)), Utf8Ok(sv(src))), dst == src),
               Implies(Val.is_VStr(src), text_ok(dst)))


# ============================================================================ safe_text
c = contract(GR, "safe_text", ["C08", "C06"])
c.param("value", ANY)
c.result = VAL
c.modifies = lambda S_: []
c.ens("encodable-text-and-other-values-unchanged", lambda S_: Implies(
    Or(Not(Val.is_VStr(S_.a.value)), Utf8Ok(sv(S_.a.value))), S_.result == S_.a.value))
c.ens("result-is-encodable-text", lambda S_: Implies(Val.is_VStr(S_.a.value), text_ok(S_.result)))
# the statement asks for *every* field unchanged, lone surrogates included: a protobuf string cannot carry them
c.ens("text-unchanged-even-when-not-encodable", lambda S_: S_.result == S_.a.value, props=["C08"])


# ============================================================================ shapes the collector produces
def vid_ok(S_, h, v):
    """VariableId as the collector builds it: id / name text, modifiers a list of agent constants"""
    mods = h.f(v, "_modifiers")
    j = z3.Int("j!vidok")
    return And(text_ok(h.f(v, "_vid")), Val.is_VStr(h.f(v, "_name")),
               Or(Val.is_VNone(h.f(v, "_original_name")), Val.is_VStr(h.f(v, "_original_name"))),
               Val.is_VRef(mods), Val.r(mods) > 0, Val.r(mods) < h.snap.next_id,
               Or(h.typeof(mods) == S_.cid("list"), h.typeof(mods) == S_.cid("tuple")), h.llen(mods) >= 0,
               z3.ForAll([j], Implies(And(j >= 0, j < h.llen(mods)), text_ok(h.lget(mods, j)))))


LIST_ID = [None, None]


def _init_ids(S_):
    LIST_ID[0], LIST_ID[1] = S_.cid("list"), S_.cid("tuple")


def existing(S_, v, cls, h):
    """v is an object of class cls that exists already (it cannot be one of the messages being built)"""
    LIST_ID[0], LIST_ID[1] = S_.cid("list"), S_.cid("tuple")
    return And(S_.isinst(v, cls, h), Val.r(v) > 0, Val.r(v) < h.snap.next_id)


def opt_text(v):
    return Or(Val.is_VNone(v), Val.is_VStr(v))


def opt_u32(v):
    return Or(Val.is_VNone(v), int_in(v, 0, U32))


def opt_bool(v):
    return Or(Val.is_VNone(v), Val.is_VBool(v))


def vid_list_ok(S_, h, lst, tag):
    j = z3.Int("j!" + tag)
    e = h.lget(lst, j)
    return And(existing(S_, lst, "list", h), h.llen(lst) >= 0,
               z3.ForAll([j], Implies(And(j >= 0, j < h.llen(lst)),
                                      And(existing(S_, e, "VariableId", h), vid_ok(S_, h, e)))))


def frame_ok(S_, h, f):
    return And(Val.is_VStr(h.f(f, "_file_name")), opt_text(h.f(f, "_short_path")), Val.is_VStr(h.f(f, "_method_name")),
               int_in(h.f(f, "_line_number"), 0, U32), opt_text(h.f(f, "_class_name")), opt_bool(h.f(f, "_async")),
               opt_u32(h.f(f, "_column_number")), opt_bool(h.f(f, "_app_frame")),
               opt_text(h.f(f, "_transpiled_file_name")), opt_u32(h.f(f, "_transpiled_line_number")),
               opt_u32(h.f(f, "_transpiled_column_number")), vid_list_ok(S_, h, h.f(f, "_variables"), "fv"))


def variable_ok(S_, h, v):
    return And(Val.is_VStr(h.f(v, "_type")), Val.is_VStr(h.f(v, "_value")), text_ok(h.f(v, "_hash")),
               opt_bool(h.f(v, "_truncated")), vid_list_ok(S_, h, h.f(v, "_children"), "vc"))


def watch_ok(S_, h, w):
    r = h.f(w, "_result")
    return And(Val.is_VStr(h.f(w, "_expression")), opt_text(h.f(w, "_error")),
               Or(Val.is_VNone(r), And(existing(S_, r, "VariableId", h), vid_ok(S_, h, r))),
               # a watch has a result or an error, never both (WatchResult is built with exactly one of them)
               Or(Val.is_VNone(r), Val.is_VNone(h.f(w, "_error"))),
               Or(*[h.f(w, "WatchResult.__source") == VStr(n) for n in SOURCES]))


def tracepoint_ok(S_, h, t):
    """tracepoint configuration text arrived as protobuf strings (or from the registering application): encodable"""
    k, j = z3.Const("k!tpok", Val), z3.Int("j!tpok")
    args, ws = h.f(t, "_args"), h.f(t, "_watches")
    return And(text_ok(h.f(t, "_id")), text_ok(h.f(t, "_path")), int_in(h.f(t, "_line_no"), -U32, U32),
               existing(S_, args, "dict", h), existing(S_, ws, "list", h), h.llen(ws) >= 0,
               z3.ForAll([k], Implies(h.dhas(args, k), And(text_ok(k), text_ok(h.dget(args, k))))),
               z3.ForAll([j], Implies(And(j >= 0, j < h.llen(ws)), text_ok(h.lget(ws, j)))))


# ============================================================================ representation predicates
def vid_repr(S_, n, m, h, v, cr):
    return And(cr(m), is_msg(S_, n, m, "VariableID"), pb(n, m, "ID") == h.f(v, "_vid"), carried(pb(n, m, "name"), h.f(v, "_name")),
               pb(n, m, "modifiers") == h.f(v, "_modifiers"), carried(pb(n, m, "original_name"), h.f(v, "_original_name")))


def vid_list_repr(S_, n, lst, h, src, tag, cr):
    return And(cr(lst), n.llen(lst) == h.llen(src),
               S_.forall_list(lst, lambda j, e: vid_repr(S_, n, e, h, h.lget(src, j), cr), heap=n, name=tag))


def frame_repr(S_, n, m, h, f, cr):
    same = {"line_number": "_line_number", "is_async": "_async", "column_number": "_column_number", "app_frame": "_app_frame",
            "transpiled_line_number": "_transpiled_line_number", "transpiled_column_number": "_transpiled_column_number"}
    text = {"file_name": "_file_name", "short_path": "_short_path", "method_name": "_method_name", "class_name": "_class_name",
            "transpiled_file_name": "_transpiled_file_name"}
    return And(cr(m), is_msg(S_, n, m, "StackFrame"),
               *[pb(n, m, k) == h.f(f, a) for k, a in same.items()],
               *[carried(pb(n, m, k), h.f(f, a)) for k, a in text.items()],
               vid_list_repr(S_, n, pb(n, m, "variables"), h, h.f(f, "_variables"), "fvr", cr))


def variable_repr(S_, n, m, h, v, cr):
    return And(cr(m), is_msg(S_, n, m, "Variable"), carried(pb(n, m, "type"), h.f(v, "_type")),
               carried(pb(n, m, "value"), h.f(v, "_value")), pb(n, m, "hash") == h.f(v, "_hash"),
               pb(n, m, "truncated") == h.f(v, "_truncated"),
               vid_list_repr(S_, n, pb(n, m, "children"), h, h.f(v, "_children"), "vcr", cr))


def watch_repr(S_, n, m, h, w, cr):
    r = h.f(w, "_result")
    return And(cr(m), is_msg(S_, n, m, "WatchResult"), carried(pb(n, m, "expression"), h.f(w, "_expression")),
               carried(pb(n, m, "error_result"), h.f(w, "_error")),
               If(Val.is_VNone(r), Val.is_VNone(pb(n, m, "good_result")), vid_repr(S_, n, pb(n, m, "good_result"), h, r, cr)),
               pb(n, m, "source") == Val.VInt(WatchSourceValue(h.f(w, "WatchResult.__source"))))


def tracepoint_repr(S_, n, m, h, t, cr):
    line = h.f(t, "_line_no")
    return And(cr(m), is_msg(S_, n, m, "TracePointConfig"), pb(n, m, "ID") == h.f(t, "_id"), pb(n, m, "path") == h.f(t, "_path"),
               pb(n, m, "line_number") == If(iv(line) < 0, VInt(0), line),
               pb(n, m, "args") == h.f(t, "_args"), pb(n, m, "watches") == h.f(t, "_watches"))


def typed_list(S_, lst, cls):
    S_.I.assume_shape(lst, LIST(OBJ(cls, inv=False)))
    return S_.elems(lst, OBJ(cls, inv=False))


def rejected(ok):
    """the only failure: protobuf rejects a field, which needs a source object outside the collector's shapes"""
    return lambda S_: Not(ok(S_))


# ============================================================================ the conversion helpers
c = contract(PU, "__convert_variable_id", ["C08"])
c.param("variable", OPT(OBJ("VariableId", inv=False)))
c.init_ghost = _init_ids
c.result = VAL
c.logged = "__convert_variable_id"
c.host_ops_exc_base = "Exception"
c.modifies = lambda S_: []
c.sig("Exception", "protobuf-rejected-a-field", cond=lambda S_: And(Not(Val.is_VNone(S_.a.variable)),
                                                                   Not(vid_ok(S_, S_.old, S_.a.variable))))
c.ens("none-stays-none-otherwise-id-name-modifiers-original-name-carried", lambda S_: If(
    Val.is_VNone(S_.a.variable), Val.is_VNone(S_.result),
    vid_repr(S_, S_.new, S_.result, S_.old, S_.a.variable, S_.created_during_call)))

c = contract(PU, "__convert_frame", ["C08"])
c.param("frame", OBJ("StackFrame", inv=False))
c.init_ghost = _init_ids
c.req("variables-is-a-list-of-variable-ids", lambda S_: typed_list(S_, S_.old.f(S_.a.frame, "_variables"), "VariableId"))
c.result = VAL
c.logged = "__convert_frame"
c.host_ops_exc_base = "Exception"
c.modifies = lambda S_: []
c.sig("Exception", "protobuf-rejected-a-field", cond=lambda S_: Not(frame_ok(S_, S_.old, S_.a.frame)))
c.ens("every-frame-field-and-every-variable-carried", lambda S_: frame_repr(
    S_, S_.new, S_.result, S_.old, S_.a.frame, S_.created_during_call))

c = contract(PU, "__convert_variable", ["C08"])
c.param("variable", OBJ("Variable", inv=False))
c.init_ghost = _init_ids
c.req("children-is-a-list-of-variable-ids", lambda S_: typed_list(S_, S_.old.f(S_.a.variable, "_children"), "VariableId"))
c.result = VAL
c.logged = "__convert_variable"
c.host_ops_exc_base = "Exception"
c.modifies = lambda S_: []
c.sig("Exception", "protobuf-rejected-a-field", cond=lambda S_: Not(variable_ok(S_, S_.old, S_.a.variable)))
c.ens("type-value-hash-children-truncated-carried", lambda S_: variable_repr(
    S_, S_.new, S_.result, S_.old, S_.a.variable, S_.created_during_call))

c = contract(PU, "__convert_watch", ["C08"])
c.param("watch", OBJ("WatchResult", inv=False))
c.init_ghost = _init_ids
c.req("result-is-a-variable-id-or-none", lambda S_: And(
    S_.I.assume_shape(S_.old.f(S_.a.watch, "_result"), OPT(OBJ("VariableId", inv=False))) or z3.BoolVal(True)))
c.req("a-result-or-an-error-never-both", lambda S_: Or(Val.is_VNone(S_.old.f(S_.a.watch, "_result")),
                                                        Val.is_VNone(S_.old.f(S_.a.watch, "_error"))))
c.result = VAL
c.logged = "__convert_watch"
c.host_ops_exc_base = "Exception"
c.modifies = lambda S_: []
c.sig("Exception", "protobuf-rejected-a-field", cond=lambda S_: Not(watch_ok(S_, S_.old, S_.a.watch)))
c.ens("expression-result-error-source-each-in-its-own-field", lambda S_: watch_repr(
    S_, S_.new, S_.result, S_.old, S_.a.watch, S_.created_during_call))

c = contract(PU, "__convert_tracepoint", ["C08"])
c.param("tracepoint", OBJ("TracePointConfig", inv=False))
c.init_ghost = _init_ids
c.req("line-is-a-number", lambda S_: Val.is_VInt(S_.old.f(S_.a.tracepoint, "_line_no")))
c.result = VAL
c.logged = "__convert_tracepoint"
c.host_ops_exc_base = "Exception"
c.modifies = lambda S_: []
c.sig("Exception", "protobuf-rejected-a-field", cond=lambda S_: Not(tracepoint_ok(S_, S_.old, S_.a.tracepoint)))
c.ens("id-path-line-args-watches-carried", lambda S_: tracepoint_repr(
    S_, S_.new, S_.result, S_.old, S_.a.tracepoint, S_.created_during_call))


# ============================================================================ __convert_lookup (variable table)
def lookup_ok(S_, h, d):
    k = z3.Const("k!lkok", Val)
    return And(existing(S_, d, "dict", h), z3.ForAll([k], Implies(h.dhas(d, k), And(
        text_ok(k), existing(S_, h.dget(d, k), "Variable", h), variable_ok(S_, h, h.dget(d, k))))))


def lookup_repr(S_, n, m, h, d, cr):
    """same keys; every entry represents the source entry with its children and truncation flag"""
    k = z3.Const("k!lkrepr", Val)
    return And(cr(m), S_.isinst(m, "dict", n), z3.ForAll([k], And(
        n.dhas(m, k) == h.dhas(d, k),
        Implies(h.dhas(d, k), variable_repr(S_, n, n.dget(m, k), h, h.dget(d, k), cr)))))


c = contract(PU, "__convert_lookup", ["C08"])
c.param("var_lookup", DICT(OBJ("Variable", inv=False)))
c.init_ghost = _init_ids
c.result = VAL
c.logged = "__convert_lookup"
c.host_ops_exc_base = "Exception"
c.modifies = lambda S_: []
c.sig("Exception", "protobuf-rejected-a-field", cond=lambda S_: Not(lookup_ok(S_, S_.old, S_.a.var_lookup)))
c.ens("every-table-entry-carried-under-its-own-key", lambda S_: lookup_repr(
    S_, S_.new, S_.result, S_.old, S_.a.var_lookup, S_.created_during_call))


def _lookup_inv(L):
    n, h = L.now(), L.at_entry()
    S_ = L.spec
    conv, src = L.local("converted"), L.pre_local("var_lookup")
    k = z3.Const("k!lkinv", Val)
    pos = L.seq.pos()
    return And(Val.is_VRef(conv), n.typeof(conv) == L.cid("dict"), conv != src,
               z3.ForAll([k], And(
                   n.dhas(conv, k) == And(h.dhas(src, k), z3.Select(pos, k) < L.index),
                   Implies(n.dhas(conv, k), variable_repr(S_, n, n.dget(conv, k), h, h.dget(src, k), L.created_in_loop)))))


c.loop("iter:var_lookup.items()", invariant=_lookup_inv, modifies=lambda L: [("dict", L.local("converted"))])


# ============================================================================ attribute values
def prim_ok(v):
    """a primitive the attribute store holds (C18 cleaning): bool, text, 64-bit integer, float"""
    return Or(Val.is_VBool(v), Val.is_VStr(v), int_in(v, -I64, I64), Val.is_VFloat(v))


def storable(S_, h, v):
    """what the attribute store can hold: a primitive, or a tuple (also: list) of primitives"""
    j = z3.Int("j!stor")
    return Or(prim_ok(v), And(Val.is_VRef(v), Val.r(v) > 0, Val.r(v) < h.snap.next_id,
                              Or(h.typeof(v) == S_.cid("tuple"), h.typeof(v) == S_.cid("list")), h.llen(v) >= 0,
                              z3.ForAll([j], Implies(And(j >= 0, j < h.llen(v)), prim_ok(h.lget(v, j))))))


def prim_repr(S_, n, m, v, cr):
    """AnyValue message m carries the primitive v in the member of its type, and nothing else"""
    members = {"bool_value": Val.is_VBool(v), "string_value": Val.is_VStr(v), "int_value": Val.is_VInt(v),
               "double_value": Val.is_VFloat(v)}
    cs = [cr(m), is_msg(S_, n, m, "AnyValue")]
    for k, isk in members.items():
        if k == "string_value":
            cs.append(Implies(isk, carried(pb(n, m, k), v)))
        else:
            cs.append(Implies(isk, pb(n, m, k) == v))
    return And(*cs)


def any_repr(S_, n, m, h, v, cr):
    arr = pb(n, m, "array_value")
    vals = pb(n, arr, "values")
    seq = And(cr(m), is_msg(S_, n, m, "AnyValue"), cr(arr), is_msg(S_, n, arr, "ArrayValue"), cr(vals),
              n.llen(vals) == h.llen(v),
              S_.forall_list(vals, lambda j, e: prim_repr(S_, n, e, h.lget(v, j), cr), heap=n, name="av"))
    return If(Val.is_VRef(v), seq, prim_repr(S_, n, m, v, cr))


def _cv_domain(S_):
    return cv_domain(S_, S_.old, S_.a.value)


c = contract(GR, "convert_value", ["C08"])
c.param("value", VAL)
c.req("primitive-or-builtin-sequence-of-primitives", _cv_domain)
c.result = VAL
c.logged = "convert_value"
c.host_ops_exc_base = "Exception"
c.modifies = lambda S_: []
c.sig("Exception", "protobuf-rejected-a-field", cond=lambda S_: Not(storable(S_, S_.old, S_.a.value)))
c.ens("every-storable-value-is-carried-in-the-member-of-its-type", lambda S_: Implies(
    storable(S_, S_.old, S_.a.value), any_repr(S_, S_.new, S_.result, S_.old, S_.a.value, S_.created_during_call)))
c.ens("anything-else-yields-a-message-or-nothing", lambda S_: Or(
    Val.is_VNone(S_.result), And(S_.created_during_call(S_.result), S_.isinst(S_.result, "proto"))))


# ============================================================================ attributes of a snapshot / resource
def attrs_ok(S_, h, a):
    """a BoundedAttributes store: text keys, storable values (established by the C18 cleaning contracts)"""
    d = h.f(a, "_dict")
    keys = h.f(d, "$okeys")
    j = z3.Int("j!atok")
    return And(existing(S_, a, "BoundedAttributes", h), existing(S_, d, "OrderedDict", h), existing(S_, keys, "list", h),
               h.llen(keys) >= 0, int_in(h.f(a, "dropped"), 0, U32),
               z3.ForAll([j], Implies(And(j >= 0, j < h.llen(keys)), And(
                   Val.is_VStr(h.lget(keys, j)), h.dhas(d, h.lget(keys, j)),
                   storable(S_, h, h.dget(d, h.lget(keys, j)))))))


def kv_list_repr(S_, n, lst, h, a, cr, tag):
    """one KeyValue per attribute, in the store's order: key text carried, value carried"""
    d = h.f(a, "_dict")
    keys = h.f(d, "$okeys")
    return And(cr(lst), n.llen(lst) == h.llen(keys), S_.forall_list(lst, lambda j, e: And(
        cr(e), is_msg(S_, n, e, "KeyValue"), carried(pb(n, e, "key"), h.lget(keys, j)),
        Implies(storable(S_, h, h.dget(d, h.lget(keys, j))),
                any_repr(S_, n, pb(n, e, "value"), h, h.dget(d, h.lget(keys, j)), cr))), heap=n, name=tag))


c = contract(GR, "__convert_attributes", ["C08", "C18"])
c.param("attributes", OBJ("BoundedAttributes"))
c.result = VAL
c.logged = "__convert_attributes"
c.host_ops_exc_base = "Exception"
c.modifies = lambda S_: []
c.sig("Exception", "protobuf-rejected-a-field", cond=lambda S_: Not(attrs_ok(S_, S_.old, S_.a.attributes)))
c.ens("every-attribute-and-the-dropped-count-carried", lambda S_: And(
    S_.created_during_call(S_.result), is_msg(S_, S_.new, S_.result, "Resource"),
    pb(S_.new, S_.result, "dropped_attributes_count") == S_.old.f(S_.a.attributes, "dropped"),
    kv_list_repr(S_, S_.new, pb(S_.new, S_.result, "attributes"), S_.old, S_.a.attributes, S_.created_during_call, "ra")))


c = contract(GR, "convert_resource", ["C08", "C18"])
c.param("resource", OBJ("Resource"))
c.result = VAL
c.logged = "convert_resource"
c.host_ops_exc_base = "Exception"
c.modifies = lambda S_: []
c.sig("Exception", "resource-cannot-be-converted",
      cond=lambda S_: Not(attrs_ok(S_, S_.old, S_.old.f(S_.a.resource, "_attributes"))))
c.ens("every-resource-attribute-and-the-dropped-count-carried", lambda S_: And(
    S_.created_during_call(S_.result), is_msg(S_, S_.new, S_.result, "Resource"),
    pb(S_.new, S_.result, "dropped_attributes_count") == S_.old.f(S_.old.f(S_.a.resource, "_attributes"), "dropped"),
    kv_list_repr(S_, S_.new, pb(S_.new, S_.result, "attributes"), S_.old, S_.old.f(S_.a.resource, "_attributes"),
                 S_.created_during_call, "rr")))


# ============================================================================ convert_snapshot
def list_of(S_, h, lst, cls, ok, tag):
    j = z3.Int("j!" + tag)
    e = h.lget(lst, j)
    return And(existing(S_, lst, "list", h), h.llen(lst) >= 0,
               z3.ForAll([j], Implies(And(j >= 0, j < h.llen(lst)), And(existing(S_, e, cls, h), ok(S_, h, e)))))


def snapshot_ok(S_, h, s):
    """a snapshot as the collector builds it (types, ranges); its text may be anything"""
    return And(int_in(h.f(s, "_id"), 0, 2 ** 128),
               existing(S_, h.f(s, "_tracepoint"), "TracePointConfig", h), tracepoint_ok(S_, h, h.f(s, "_tracepoint")),
               lookup_ok(S_, h, h.f(s, "_var_lookup")),
               int_in(h.f(s, "_ts_nanos"), 0, U64), int_in(h.f(s, "_duration_nanos"), 0, U64),
               list_of(S_, h, h.f(s, "_frames"), "StackFrame", frame_ok, "sf"),
               list_of(S_, h, h.f(s, "_watches"), "WatchResult", watch_ok, "sw"),
               attrs_ok(S_, h, h.f(s, "_attributes")),
               existing(S_, h.f(s, "_resource"), "Resource", h),
               attrs_ok(S_, h, h.f(h.f(s, "_resource"), "_attributes")),
               opt_text(h.f(s, "_log")))


def snapshot_repr(S_, n, m, h, s, cr):
    frames, watches = pb(n, m, "frames"), pb(n, m, "watches")
    ident = pb(n, m, "ID")
    return And(
        cr(m), is_msg(S_, n, m, "Snapshot"),
        cr(ident), S_.isinst(ident, "bytes", n), n.f(ident, "$int") == h.f(s, "_id"),
        tracepoint_repr(S_, n, pb(n, m, "tracepoint"), h, h.f(s, "_tracepoint"), cr),
        lookup_repr(S_, n, pb(n, m, "var_lookup"), h, h.f(s, "_var_lookup"), cr),
        pb(n, m, "ts_nanos") == h.f(s, "_ts_nanos"), pb(n, m, "duration_nanos") == h.f(s, "_duration_nanos"),
        cr(frames), n.llen(frames) == h.llen(h.f(s, "_frames")),
        S_.forall_list(frames, lambda j, e: frame_repr(S_, n, e, h, h.lget(h.f(s, "_frames"), j), cr), heap=n, name="sfr"),
        cr(watches), n.llen(watches) == h.llen(h.f(s, "_watches")),
        S_.forall_list(watches, lambda j, e: watch_repr(S_, n, e, h, h.lget(h.f(s, "_watches"), j), cr), heap=n, name="swr"),
        kv_list_repr(S_, n, pb(n, m, "attributes"), h, h.f(s, "_attributes"), cr, "sa"),
        kv_list_repr(S_, n, pb(n, m, "resource"), h, h.f(h.f(s, "_resource"), "_attributes"), cr, "sr"),
        carried(pb(n, m, "log_msg"), h.f(s, "_log")))


def _snapshot_shapes(S_):
    """declared typing of the snapshot's containers (what the loops and comprehensions iterate over)"""
    _init_ids(S_)
    h, s = S_.old, S_.a.snapshot
    I_ = S_.I
    I_.assume_shape(h.f(s, "_tracepoint"), OBJ("TracePointConfig", inv=False))
    I_.assume_shape(h.f(s, "_frames"), LIST(OBJ("StackFrame", inv=False)))
    S_.elems(h.f(s, "_frames"), OBJ("StackFrame", inv=False))
    I_.assume_shape(h.f(s, "_watches"), LIST(OBJ("WatchResult", inv=False)))
    S_.elems(h.f(s, "_watches"), OBJ("WatchResult", inv=False))
    S_.dict_values(h.f(s, "_var_lookup"), OBJ("Variable", inv=False))
    I_.assume_shape(h.f(s, "_resource"), OBJ("Resource"))


def _snapshot_domain(S_):
    h, s = S_.old, S_.a.snapshot
    j = z3.Int("j!snd")
    w = h.lget(h.f(s, "_watches"), j)
    return And(Val.is_VInt(h.f(h.f(s, "_tracepoint"), "_line_no")),
               z3.ForAll([j], Implies(And(j >= 0, j < h.llen(h.f(s, "_watches"))),
                                      Or(Val.is_VNone(h.f(w, "_result")), Val.is_VNone(h.f(w, "_error"))))))


c = contract(PU, "convert_snapshot", ["C08", "C06"])
c.param("snapshot", OBJ("EventSnapshot"))
c.init_ghost = _snapshot_shapes
c.req("a-watch-has-a-result-or-an-error-never-both", _snapshot_domain)
c.result = VAL
c.logged = "convert_snapshot"
c.host_ops_exc_base = "Exception"
c.modifies = lambda S_: []
c.ens("a-collected-snapshot-is-never-discarded", lambda S_: Implies(
    snapshot_ok(S_, S_.old, S_.a.snapshot), Not(Val.is_VNone(S_.result))))
c.ens("every-field-of-the-snapshot-is-carried", lambda S_: Implies(Not(Val.is_VNone(S_.result)), snapshot_repr(
    S_, S_.new, S_.result, S_.old, S_.a.snapshot, S_.created_during_call)))


# ============================================================================ auth metadata
AU = "api/auth/__init__.py"
GS = "grpc/grpc_service.py"
B64 = z3.Function("Base64Text", S, S)


@extern("importlib.import_module", "imports a module by name: runs its top level (may raise), returns the module object")
def _import_module(it, args, kwargs, node, anchor):
    it.st.log.append(LogEntry("import_module", list(args), kwargs, None, anchor))
    if it.ctx.branch(z3.Bool("import_fails!%d" % len(it.st.log)), "import fails"):
        it.raise_symbolic(anchor, "Exception", "import-failed")
    res = it.ctx.fresh("module", Val)
    it.assume_shape(res, HOSTOBJ)
    it.st.log[-1].result = res
    return res


@extern("base64.b64encode", "base64 of bytes that encode a text: the bytes of Base64Text(text) (ASCII)")
def _b64encode(it, args, kwargs, node, anchor):
    r0 = z3.simplify(Val.r(args[0]))
    known = it.st.ghost.get("encoded_bytes", {})
    if z3.is_int_value(r0) and r0.as_long() in known:
        text = Val.VStr(B64(sv(known[r0.as_long()])))
    else:
        text = Val.VStr(z3.Function("Base64OfBytes", Val, S)(args[0]))
    rid = it.st.alloc(it.table.id("bytes"))
    it.st.set_field(z3.IntVal(rid), "$text", text)
    it.st.writes.pop()
    it.st.ghost.setdefault("encoded_bytes", {})[rid] = text
    return VRef(rid)


c = contract(AU, "BasicAuthProvider.provide", ["C08"])
c.param("self", OBJ("BasicAuthProvider", inv=False))
c.req("config", lambda S_: S_.I.assume_shape(S_.old.f(S_.a.self, "_config"), OBJ("ConfigService")) or z3.BoolVal(True))
# precondition on the configuration: the credentials are text or unset (environment variables / start() arguments)
c.init_ghost = lambda S_: S_.I.st.ghost.setdefault("config_types", {}).update(
    {"SERVICE_USERNAME": OPT(STR), "SERVICE_PASSWORD": OPT(STR)})
c.result = VAL
c.logged = "provide"
c.host_ops_exc_base = "Exception"
c.modifies = lambda S_: []
c.sig("Exception", "credentials-are-not-text-or-cannot-be-encoded")


def _basic_post(S_, kind):
    """user and password configured: one ('authorization', 'Basic%20' + base64(user:password)) pair; otherwise none"""
    if kind != "return":
        return []
    gets = S_.calls("config_get")
    n = S_.new
    r = S_.result
    if len(gets) != 2:
        return [("reads-user-and-password", "LOG", z3.BoolVal(False), None)]
    u, p = gets[0].result, gets[1].result
    pair = n.lget(r, 0)
    return [("reads-user-and-password", "LOG", And(gets[0].args[1] == VStr("SERVICE_USERNAME"),
                                                   gets[1].args[1] == VStr("SERVICE_PASSWORD")), None),
            ("basic-authorization-pair-iff-both-configured", "POST", And(
                S_.created_during_call(r), S_.isinst(r, "list"),
                Implies(Or(Val.is_VNone(u), Val.is_VNone(p)), n.llen(r) == 0),
                Implies(And(Val.is_VStr(u), Val.is_VStr(p)),
                   And(n.llen(r) == 1, Val.is_VRef(pair), n.llen(pair) == 2, n.lget(pair, 0) == VStr("authorization"),
                       n.lget(pair, 1) == Val.VStr(z3.Concat(z3.StringVal("Basic%20"),
                                                             B64(z3.Concat(sv(u), z3.StringVal(":"), sv(p)))))))), None)]


c.exit_check(_basic_post)

def _auth_host_methods(S_):
    from .c20_plugins import plugin_method
    from pyvc.core import SymCallable
    S_.I.st.ghost.setdefault("host_methods", {})["provide"] = SymCallable("provide", plugin_method("provide"))


c = contract(AU, "AuthProvider.get_provider", ["C08"])
c.param("config", OBJ("ConfigService"))
c.init_ghost = lambda S_: S_.I.st.ghost.setdefault("config_types", {}).update({"SERVICE_AUTH_PROVIDER": OPT(STR)})
c.result = OPT(HOSTOBJ)        # the provider object (a class loaded by name: foreign to the agent's own heap)
c.logged = "get_provider"
c.host_ops_exc_base = "Exception"
c.modifies = lambda S_: [("all",)]          # importing a module and constructing the provider run foreign code
c.sig("Exception", "provider-cannot-be-loaded")


def _provider_log(S_, kind):
    """no provider configured: None, nothing imported; otherwise the configured class is imported, constructed with the
    config, and that object is the provider"""
    if kind != "return":
        return []
    gets = S_.calls("config_get")
    imps = S_.calls("import_module")
    calls = S_.calls("plugin_call")
    if len(gets) != 1:
        return [("reads-the-provider-setting", "LOG", z3.BoolVal(False), None)]
    name = gets[0].result
    blank = Or(Val.is_VNone(name), name == VStr(""))
    if not imps:
        return [("no-provider-configured-means-none", "POST", And(blank, Val.is_VNone(S_.result)), None)]
    return [("reads-the-provider-setting", "LOG", gets[0].args[1] == VStr("SERVICE_AUTH_PROVIDER"), None),
            ("configured-provider-is-constructed-with-the-config", "LOG", And(
                Not(blank), z3.BoolVal(len(imps) == 1 and len(calls) == 1),
                calls[0].args[0] == imps[0].result if calls else z3.BoolVal(False),
                calls[0].args[2] == S_.a.config if calls and len(calls[0].args) > 2 else z3.BoolVal(False),
                S_.result == calls[0].result if calls else z3.BoolVal(False)), None)]


c.exit_check(_provider_log)

c = contract(GS, "GRPCService._build_metadata", ["C08"])
c.param("self", OBJ("GRPCService"))
c.req("config", lambda S_: S_.I.assume_shape(S_.old.f(S_.a.self, "_config"), OBJ("ConfigService")) or z3.BoolVal(True))
c.init_ghost = _auth_host_methods
c.result = VAL
c.logged = "_build_metadata"
c.host_ops_exc_base = "Exception"
c.modifies = lambda S_: [("all",)]
c.protects = lambda S_: {"fields": ["_metadata", "_config"], "lists": [], "dicts": []}
c.sig("Exception", "provider-cannot-be-loaded-or-fails")


def _build_log(S_, kind):
    if kind != "return":
        return []
    gp = S_.calls("get_provider")
    pv = S_.calls("provide")
    if len(gp) != 1:
        return [("provider-looked-up-once-with-the-service-config", "LOG", z3.BoolVal(False), None)]
    if gp[0].raised or gp[0].result is None or any(e.raised or e.result is None for e in pv):
        # a provider that cannot be loaded, or that fails, must not be turned into "no metadata" (which would then be
        # cached and sent with every later request)
        return [("a-failing-provider-is-not-replaced-by-empty-metadata", "POST", z3.BoolVal(False), None)]
    out = [("provider-looked-up-once-with-the-service-config", "LOG", gp[0].args[0] == S_.old.f(S_.a.self, "_config"), None)]
    if pv:
        out.append(("metadata-is-what-the-provider-supplies", "POST", And(
            Not(Val.is_VNone(gp[0].result)), z3.BoolVal(len(pv) == 1), pv[0].args[0] == gp[0].result,
            S_.result == pv[0].result), None))
    else:
        out.append(("no-provider-no-metadata", "POST", And(Val.is_VNone(gp[0].result), S_.created_during_call(S_.result),
                                                            S_.new.llen(S_.result) == 0), None))
    return out


c.exit_check(_build_log)

c = contract(GS, "GRPCService.metadata", ["C08", "C09"])
c.param("self", OBJ("GRPCService"))
c.result = VAL
c.logged = "grpc.metadata"
c.host_ops_exc_base = "Exception"
c.modifies = lambda S_: [("all",)]
c.protects = lambda S_: {"fields": ["_metadata", "_config"], "lists": [], "dicts": []}
c.sig("Exception", "auth-provider-failed", post=lambda S_: S_.f(S_.a.self, "_metadata") == S_.old.f(S_.a.self, "_metadata"))


def _metadata_log(S_, kind):
    """built from the provider on first use, then the same metadata for every request"""
    if kind != "return":
        return []
    b = S_.calls("_build_metadata")
    old = S_.old.f(S_.a.self, "_metadata")
    if not b:
        return [("cached-metadata-reused", "POST", And(Not(Val.is_VNone(old)), S_.result == old,
                                                       S_.f(S_.a.self, "_metadata") == old), None)]
    return [("built-once-from-the-provider-and-kept", "POST", And(
        Val.is_VNone(old), z3.BoolVal(len(b) == 1), b[0].args[0] == S_.a.self, S_.result == b[0].result,
        S_.f(S_.a.self, "_metadata") == b[0].result), None)]


c.exit_check(_metadata_log)
