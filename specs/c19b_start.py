"""C19 (entry point) deep.start: the application root is resolved with the documented precedence - a value given in code
wins over the DEEP_APP_ROOT environment variable, which wins over the calculated default - and nothing else of the
code-supplied configuration is changed, before the configuration service is built from it.

`start` is verified as a *prefix*: up to and including the construction of the ConfigService (stop_after).  What follows
(`logging.init`, `Deep(cfg)`, `Deep.start()`) builds the services and is covered by the contracts of those classes
(Deep.start: C14/C20); the module function adds nothing to it but passing `cfg` on."""
from .common import *
from pyvc.contract import extern
from pyvc.core import LogEntry, Dirname

CS = "config/config_service.py"
TOP = "__init__.py"

# ---------------------------------------------------------------- ConfigService.__init__
c = contract(CS, "ConfigService.__init__", ["C19"])
c.param("self", OBJ("ConfigService", inv=False)).param("custom", OPT(DICT())).param("tracepoints", VAL)
c.result = NONE
c.logged = "ConfigService.__init__"
c.modifies = lambda S_: [("field", S_.a.self, f) for f in ("_plugins", "ConfigService.__custom", "_resource", "_tracepoint_config")]
c.ens("keeps-the-given-table-itself", lambda S_: Implies(Not(Val.is_VNone(S_.a.custom)),
                                                        S_.f(S_.a.self, "ConfigService.__custom") == S_.a.custom))
c.ens("no-table-given-an-empty-one-of-its-own", lambda S_: Implies(Val.is_VNone(S_.a.custom), And(
    S_.is_fresh(S_.f(S_.a.self, "ConfigService.__custom"), "dict"), S_.new.dlen(S_.f(S_.a.self, "ConfigService.__custom")) == 0)))
c.ens("starts-without-plugins-or-resource", lambda S_: And(
    S_.is_fresh(S_.f(S_.a.self, "_plugins"), "list"), S_.new.llen(S_.f(S_.a.self, "_plugins")) == 0,
    Val.is_VNone(S_.f(S_.a.self, "_resource")), S_.f(S_.a.self, "_tracepoint_config") == S_.a.tracepoints))


# ---------------------------------------------------------------- inspect.stack
CallerFile = z3.String("inspect_stack_1_filename")


@extern("inspect.stack", "inspect.stack(): a list of at least two FrameInfo records; [1].filename is the text path of the "
                         "caller's file (trusted: interpreter behaviour)")
def _inspect_stack(it, args, kwargs, node, anchor):
    t = it.table
    fi = VRef(it.st.alloc(t.id("object")))
    it.st.set_field(Val.r(fi), "filename", Val.VStr(CallerFile))
    return it.st.new_list([VRef(it.st.alloc(t.id("object"))), fi])


# ---------------------------------------------------------------- deep.start
c = contract(TOP, "start", ["C19"])
c.param("config", OPT(DICT()))
c.result = VAL
c.stop_after = "ConfigService.__init__"
c.modifies = lambda S_: [("all",)]
c.sig("Exception", "building-or-starting-the-services-failed")
# configuration domain: an application root given in code is a path (text)
c.req("app-root-in-code-is-text", lambda S_: Implies(
    And(Not(Val.is_VNone(S_.a.config)), S_.old.dhas(S_.a.config, VStr("APP_ROOT"))),
    Val.is_VStr(S_.old.dget(S_.a.config, VStr("APP_ROOT")))))

APP_ROOT = VStr("APP_ROOT")
EnvHas = z3.Function("EnvHas", S, B)
EnvVal = z3.Function("EnvVal", S, S)


def _start_prefix(S_, kind):
    if kind != "prefix":
        return []
    inits = S_.calls("ConfigService.__init__")
    if len(inits) != 1:
        return [("configuration-service-built-once", "LOG", z3.BoolVal(False), None)]
    e = inits[0]
    h = S_.new                       # nothing runs between the construction and the end of the prefix
    d = e.args[1]                    # the table the service is built from
    given = S_.a.config
    env = z3.StringVal("DEEP_APP_ROOT")
    in_code = And(Not(Val.is_VNone(given)), S_.old.dhas(given, APP_ROOT))
    in_env = And(EnvHas(env), z3.Length(EnvVal(env)) > 0)
    k = z3.Const("k!start", Val)
    out = [
        ("built-from-the-given-table", "LOG", Implies(Not(Val.is_VNone(given)), d == given), None),
        ("app-root-code-wins-over-environment-over-calculated", "LOG", And(
            Val.is_VRef(d), h.dhas(d, APP_ROOT),
            Implies(in_code, h.dget(d, APP_ROOT) == S_.old.dget(given, APP_ROOT)),
            Implies(And(Not(in_code), in_env), h.dget(d, APP_ROOT) == Val.VStr(EnvVal(env))),
            Implies(And(Not(in_code), Not(in_env)),
                    h.dget(d, APP_ROOT) == Val.VStr(Dirname(Dirname(CallerFile))))), None),
        ("no-other-setting-touched", "LOG", Implies(Not(Val.is_VNone(given)), z3.ForAll([k], Implies(
            k != APP_ROOT, And(h.dhas(d, k) == S_.old.dhas(given, k), h.dget(d, k) == S_.old.dget(given, k))))), None),
    ]
    return out


c.exit_check(_start_prefix)
