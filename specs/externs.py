"""Trusted contracts of external callables (standard library, protobuf, grpc, concurrent.futures).
Every entry is an assumption and is listed in the evidence of each check that used it."""
import z3
from pyvc.core import Val, VNone, VTrue, VFalse, VInt, VStr, VBool, VRef, I, B, S, ArrIV, LogEntry, Unsupported
from pyvc.contract import extern


@extern("inspect.getsourcelines", "may raise OSError (source not available) or TypeError; returns (list[str], int>=0)")
def _getsourcelines(it, args, kwargs, node, anchor):
    k = it.ctx.choose([z3.BoolVal(True), z3.Bool("getsourcelines_oserror"), z3.Bool("getsourcelines_typeerror")],
                      "getsourcelines outcome")
    if k == 1:
        it.raise_("OSError", anchor)
    if k == 2:
        it.raise_("TypeError", anchor)
    n = it.ctx.fresh("srclines_n", I)
    start = it.ctx.fresh("srclines_start", I)
    it.ctx.assume(z3.And(n >= 0, start >= 0))
    lines = it.st.new_list_arr(it.ctx.fresh("srclines", ArrIV), n, "list")
    return it.st.new_list([lines, Val.VInt(start)], "tuple")
