"""C14 (second part): stopping the poll timer."""
from .common import *

PL = "poll/poll.py"
UT = "utils.py"

c = contract(UT, "RepeatedTimer.stop", ["C14"])
c.param("self", OBJ("RepeatedTimer"))
c.result = NONE
c.logged = "RepeatedTimer.stop"
c.modifies = lambda S_: []


def _stop_log(S_, kind):
    """the stop event is set first (the loop ends at its next wait), then the timer thread is joined"""
    if kind != "return":
        return []
    sets, joins = S_.calls("Event.set"), S_.calls("Thread.join")
    log = [e.label for e in S_.log if e.label in ("Event.set", "Thread.join")]
    return [("event-set-then-thread-joined", "LOG", And(
        z3.BoolVal(log == ["Event.set", "Thread.join"]),
        sets[0].args[0] == S_.old.f(S_.a.self, "event") if sets else z3.BoolVal(False),
        joins[0].args[0] == S_.old.f(S_.a.self, "thread") if joins else z3.BoolVal(False)), None)]


c.exit_check(_stop_log)

c = contract(PL, "LongPoll.shutdown", ["C14", "C12"])
c.param("self", OBJ("LongPoll"))
c.result = NONE
c.logged = "poll.shutdown"
c.modifies = lambda S_: [("field", S_.a.self, "timer")]


def _poll_shutdown(S_, kind):
    """a running timer is stopped exactly once and forgotten; without a timer nothing happens; afterwards there is none"""
    if kind != "return":
        return []
    stops = S_.calls("RepeatedTimer.stop")
    t = S_.old.f(S_.a.self, "timer")
    out = [("no-timer-afterwards", "POST", Val.is_VNone(S_.f(S_.a.self, "timer")), None)]
    if stops:
        out.append(("running-timer-stopped-once", "LOG", And(z3.BoolVal(len(stops) == 1), stops[0].args[0] == t,
                                                             Not(Val.is_VNone(t))), None))
    else:
        out.append(("nothing-to-stop-without-a-timer", "LOG", Val.is_VNone(t), None))
    return out


c.exit_check(_poll_shutdown)
