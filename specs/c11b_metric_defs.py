"""C11/C17 (second part): metric and label definitions are converted field by field."""
from .common import *
from pyvc.core import LogEntry
from pyvc.contract import extern

GR = "grpc/__init__.py"
PROTO = P("obj", cls="proto", inv=False)
MetricTypeName = z3.Function("MetricTypeName", Val, S)
OneofName = z3.Function("OneofName", Val, Val)        # WhichOneof("value") of a static value message: a field name or None


@extern("deepproto.proto.tracepoint.v1.tracepoint_pb2.MetricType.Name", "enum name of a metric type number (ValueError for unknown numbers)")
def _metric_type_name(it, args, kwargs, node, anchor):
    if it.ctx.branch(z3.Function("MetricTypeUnknown", Val, B)(args[0]), "unknown metric type number"):
        it.raise_("ValueError", anchor)
    return Val.VStr(MetricTypeName(args[0]))


@extern("proto.WhichOneof", "name of the set member of a oneof, or None")
def _which_oneof(it, args, kwargs, node, anchor):
    r = OneofName(args[0])
    it.st.ghost["oneof_names"] = ["string_value", "int_value", "bool_value", "double_value"]
    it.ctx.assume(Or(Val.is_VNone(r), r == VStr("string_value"), r == VStr("int_value"), r == VStr("bool_value"),
                     r == VStr("double_value")))
    return r


c = contract(GR, "__convert_static_value", ["C11", "C17"])
c.param("value", PROTO)
c.req("label-has-a-static-message", lambda S_: S_.I.assume_shape(S_.old.f(S_.a.value, "static"), PROTO) or z3.BoolVal(True))
c.result = VAL
c.modifies = lambda S_: []
def static_of(h, label):
    st = h.f(label, "static")
    nm = OneofName(st)
    return If(Val.is_VNone(nm), VNone,
              If(nm == VStr("string_value"), h.f(st, "string_value"),
                 If(nm == VStr("int_value"), h.f(st, "int_value"),
                    If(nm == VStr("bool_value"), h.f(st, "bool_value"), h.f(st, "double_value")))))


c.ens("the-set-member-of-the-static-value-or-none", lambda S_: S_.result == static_of(S_.old, S_.a.value))


# ---------------------------------------------------------------- convert_label_expressions / __convert_metric_definition
c = contract(GR, "convert_label_expressions", ["C11", "C17"])
c.param("label_expressions", LIST(PROTO))
c.result = VAL
c.logged = "convert_label_expressions"
c.modifies = lambda S_: []
c.ens("one-label-per-definition-with-key-static-value-and-expression", lambda S_: And(
    S_.created_during_call(S_.result), S_.new.llen(S_.result) == S_.old.llen(S_.a.label_expressions),
    S_.forall_list(S_.result, lambda j, e: And(
        S_.created_during_call(e), S_.isinst(e, "LabelExpression"),
        S_.f(e, "LabelExpression.__key") == S_.old.f(S_.old.lget(S_.a.label_expressions, j), "key"),
        S_.f(e, "LabelExpression.__static") == static_of(S_.old, S_.old.lget(S_.a.label_expressions, j)),
        S_.f(e, "LabelExpression.__expression") == S_.old.f(S_.old.lget(S_.a.label_expressions, j), "expression")), name="le")))

c = contract(GR, "__convert_metric_definition", ["C11", "C17"])
c.param("metrics", LIST(PROTO))
c.result = VAL
c.logged = "convert_metrics"
c.modifies = lambda S_: []
c.sig("ValueError", "unknown-metric-type-number")


def _md_post(S_):
    h, n = S_.old, S_.new
    src = S_.a.metrics

    def one(j, e):
        m = h.lget(src, j)
        labels = n.f(e, "labels")
        return And(S_.created_during_call(e), S_.isinst(e, "MetricDefinition"),
                   n.f(e, "name") == h.f(m, "name"), n.f(e, "type") == Val.VStr(MetricTypeName(h.f(m, "type"))),
                   n.f(e, "expression") == h.f(m, "expression"), n.f(e, "namespace") == h.f(m, "namespace"),
                   n.f(e, "help") == h.f(m, "help"), n.f(e, "unit") == h.f(m, "unit"),
                   Val.is_VRef(labels), n.llen(labels) == h.llen(h.f(m, "labelExpressions")))
    return And(S_.created_during_call(S_.result), n.llen(S_.result) == h.llen(src), S_.forall_list(S_.result, one, name="md"))


c.ens("one-definition-per-metric-with-every-field-carried", _md_post)

