"""C17 metric tracepoints / C20 plugin isolation (metric part)."""
from .common import *
from .c10_conditions import inv_action_context
from pyvc.core import SymCallable, LogEntry, Lower, FloatOk, FloatOf

MA = "processor/context/metric_action.py"
CS = "config/config_service.py"


@class_invariant("LabelExpression")
def inv_label(S_, l):
    h = S_.new
    e = h.f(l, "LabelExpression.__expression")
    return And(Or(Val.is_VNone(e), Val.is_VStr(e)), Val.is_VStr(h.f(l, "LabelExpression.__key")))


@class_invariant("MetricDefinition")
def inv_metric(S_, m):
    h = S_.new
    e = h.f(m, "expression")
    return And(Val.is_VStr(h.f(m, "name")), Val.is_VStr(h.f(m, "type")), Or(Val.is_VNone(e), Val.is_VStr(e)),
               S_.pre(h.f(m, "labels"), "list"), h.llen(h.f(m, "labels")) >= 0, S_.elems(h.f(m, "labels"), OBJ("LabelExpression")),
               Or(Val.is_VNone(h.f(m, "namespace")), Val.is_VStr(h.f(m, "namespace"))),
               Or(Val.is_VNone(h.f(m, "help")), Val.is_VStr(h.f(m, "help"))),
               Or(Val.is_VNone(h.f(m, "unit")), Val.is_VStr(h.f(m, "unit"))))


# getattr(plugin, <computed name>): a plugin operation; calling it runs plugin code (may raise any Exception)
@extern("getattr-dynamic", "getattr(obj, name) with a computed name yields a callable that runs plugin code")
def _getattr_dynamic(it, args, kwargs, node, anchor):
    obj, name = args[0], args[1]

    def spec(it2, sc, cargs, ckw, cnode, canchor):
        it2.st.log.append(LogEntry("plugin_call", [obj, name] + list(cargs), ckw, None, canchor))
        if it2.ctx.branch(z3.Bool("plugin_raises!%d" % len(it2.st.log)), "plugin raises"):
            it2.raise_symbolic(canchor, "Exception", "plugin")
        res = it2.ctx.fresh("plugin_result", Val)      # whatever the plugin returns
        it2.assume_shape(res, ANY)
        it2.st.log[-1].result = res
        return res
    return it.st.register(SymCallable("plugin_op", spec))


# ---------------------------------------------------------------- MetricActionContext._process_metric
c = contract(MA, "MetricActionContext._process_metric", ["C17"])
c.param("self", OBJ("MetricActionContext")).param("metric", OBJ("MetricDefinition"))
c.result = TUPLE(VAL, VAL)
c.host_ops_exc_base = "Exception"
c.logged = "_process_metric"
c.modifies = lambda S_: []


def _pm_value(S_):
    """value = the metric's expression evaluated in the frame as a number, or 1 when there is no expression or
    it is not numeric / fails."""
    from .c10_conditions import expr_value_facts
    h = S_.old
    m = S_.a.metric
    e = h.f(m, "expression")
    v = S_.new.lget(S_.result, 1)
    no_expr = Or(Val.is_VNone(e), z3.Length(sv(e)) == 0)
    raises, value = expr_value_facts(S_, e)
    numeric = Or(Val.is_VInt(value), Val.is_VBool(value), Val.is_VFloat(value))
    as_real = If(Val.is_VFloat(value), Val.f(value), If(Val.is_VInt(value), z3.ToReal(iv(value)),
                                                         If(bv(value), z3.RealVal(1), z3.RealVal(0))))
    return And(Implies(no_expr, v == VInt(1)),
               Implies(And(Not(no_expr), Not(raises), numeric), v == Val.VFloat(as_real)),
               Implies(And(Not(no_expr), Not(raises), Val.is_VNone(value)), v == VInt(1)))


c.ens("value-is-the-expression-as-a-number-or-1", _pm_value)
c.ens("labels-is-a-new-dict", lambda S_: S_.is_fresh(S_.new.lget(S_.result, 0), "dict"))


def _pm_labels(L):
    """one label per definition: the static value, or str(expression evaluated in the frame)."""
    log = L.iter_log()
    label = L.seq.element(L.index)
    h0, h1 = L.at_iteration_start(), L.now()
    labels = L.local("labels")
    key = h0.f(label, "LabelExpression.__key")
    expr = h0.f(label, "LabelExpression.__expression")
    has_expr = And(Val.is_VStr(expr), z3.Length(sv(expr)) > 0)
    evs = [e for e in log if e.label == "evaluate_expression"]
    goals = [("label-recorded-under-its-key", h1.dhas(labels, key))]
    if evs:
        goals.append(("label-expression-evaluated-in-the-frame", And(has_expr, evs[0].args[1] == expr, len(evs) == 1)))
    else:
        goals.append(("static-label-value", And(Not(has_expr), h1.dget(labels, key) == h0.f(label, "LabelExpression.__static"))))
    return goals


c.loop("iter:metric.labels", body_ensures=_pm_labels, modifies=lambda L: [("dict", L.local("labels"))])


@class_invariant("MetricActionContext")
def inv_metric_context(S_, a):
    """metric actions are only built for tracepoints with metric definitions (build_metric_action)"""
    h = S_.new
    cfg = h.f(h.f(a, "location_action"), "LocationAction.__config")
    m = h.dget(cfg, "metrics")
    return And(inv_action_context(S_, a), h.dhas(cfg, "metrics"), S_.pre(m, "list"), h.llen(m) >= 0,
               S_.elems(m, OBJ("MetricDefinition")))


# ---------------------------------------------------------------- MetricActionContext._process_action
c = contract(MA, "MetricActionContext._process_action", ["C17", "C20"])
c.param("self", OBJ("MetricActionContext"))
c.result = VAL
c.host_ops_exc_base = "Exception"
c.logged = "_process_action"
c.modifies = lambda S_: [("all",)]
# C20: a metric plugin that fails costs only its own contribution: nothing escapes, the others still run
c.sig_props = ["C20"]


def _mpa_outer(L):
    """every metric definition is evaluated exactly once (its own definition)."""
    pm = [e for e in L.iter_log() if e.label == "_process_metric"]
    metric = L.seq.element(L.index)
    return [("metric-evaluated-once", And(z3.BoolVal(len(pm) == 1), pm[0].args[1] == metric if pm else z3.BoolVal(False)))]


def _mpa_inner(L):
    """one report per (metric, processor): through the operation named after the metric's type, with the metric's
    name, the evaluated labels, namespace (default 'deep'), help, unit and the evaluated value."""
    calls = [e for e in L.iter_log() if e.label == "plugin_call"]
    if len(calls) != 1:
        return [("reported-once-to-this-processor", z3.BoolVal(False))]
    e = calls[0]
    h = L.now()
    proc = L.seq.element(L.index)
    metric = L.local("metric")
    ns = h.f(metric, "namespace")
    ns_expected = If(Or(Val.is_VNone(ns), z3.Length(sv(ns)) == 0), VStr("deep"), ns)
    return [("reported-once-to-this-processor", And(e.args[0] == proc)),
            ("operation-matches-type", e.args[1] == Val.VStr(Lower(sv(h.f(metric, "type"))))),
            ("name-labels-namespace-help-unit-value", And(
                e.args[2] == h.f(metric, "name"), e.args[3] == L.local("labels"), e.args[4] == ns_expected,
                e.args[5] == h.f(metric, "help"), e.args[6] == h.f(metric, "unit"), e.args[7] == L.local("value")))]


c.loop("iter:metrics", body_ensures=_mpa_outer, body_no_raise=True, modifies=lambda L: [("all",)])
c.loop("iter:self.trigger_context.config.metric_processors", body_ensures=_mpa_inner, body_no_raise=True, modifies=lambda L: [("all",)])
