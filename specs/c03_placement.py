"""C03 Trigger placement: actions fire at exactly the configured locations."""
from .common import *

TH = "processor/trigger_handler.py"


@class_invariant("LineLocation")
def inv_lineloc(S_, l):
    h = S_.new
    return And(Val.is_VStr(h.f(l, "LineLocation.__path")), Val.is_VInt(h.f(l, "LineLocation.__line")))


@class_invariant("FunctionLocation")
def inv_funcloc(S_, l):
    h = S_.new
    fn = h.f(l, "FunctionLocation.__function_name")
    return And(Val.is_VStr(h.f(l, "FunctionLocation.__path")), Or(Val.is_VNone(fn), Val.is_VStr(fn)))


def spec_line_match(h, loc, event, file, line):
    return And(event == VStr("line"), file == h.f(loc, "LineLocation.__path"), line == h.f(loc, "LineLocation.__line"))


def spec_func_match(h, loc, event, file, fname):
    return And(event == VStr("call"), file == h.f(loc, "FunctionLocation.__path"),
               fname == h.f(loc, "FunctionLocation.__function_name"))


# ---------------------------------------------------------------- LineLocation.at_location
c = contract(TRIGGER, "LineLocation.at_location", ["C03"])
c.param("self", OBJ("LineLocation")).param("event", STR).param("file", STR).param("line", INT)
c.param("function_name", OPT(STR)).param("frame", FRAME())
c.result = BOOL
c.ens("line-match-iff", lambda S_: bv(S_.result) == spec_line_match(S_.old, S_.a.self, S_.a.event, S_.a.file, S_.a.line))
c.modifies = lambda S_: []

# ---------------------------------------------------------------- FunctionLocation.at_location (named method)
c = contract(TRIGGER, "FunctionLocation.at_location", ["C03", "C01"])
c.param("self", OBJ("FunctionLocation")).param("event", STR).param("file", STR).param("line", INT)
c.param("function_name", OPT(STR)).param("frame", FRAME())
c.result = BOOL
# the statement covers method tracepoints *with* a method name
c.ens("function-match-iff", lambda S_: Implies(
    Val.is_VStr(S_.old.f(S_.a.self, "FunctionLocation.__function_name")),
    bv(S_.result) == spec_func_match(S_.old, S_.a.self, S_.a.event, S_.a.file, S_.a.function_name)), props=["C03"])
# a location without a name may learn its name (discovery); nothing else is ever written
c.modifies = lambda S_: [("field", S_.a.self, "FunctionLocation.__function_name")]
c.ens("name-kept-when-set", lambda S_: Implies(
    Val.is_VStr(S_.old.f(S_.a.self, "FunctionLocation.__function_name")),
    S_.f(S_.a.self, "FunctionLocation.__function_name") == S_.old.f(S_.a.self, "FunctionLocation.__function_name")),
    props=["C03"])
# C01: matching must not raise into the trace function
c.sig_props = ["C01"]

# ---------------------------------------------------------------- location_from_event
c = contract(TH, "TriggerHandler.location_from_event", ["C03", "C01"])
c.param("event", STR).param("frame", FRAME())
c.result = TUPLE(STR, STR, INT, STR)


def _lfe(S_):
    h = S_.old
    code = h.f(S_.a.frame, "f_code")
    r = S_.result
    return And(S_.new.lget(r, 0) == S_.a.event,
               S_.new.lget(r, 1) == Val.VStr(Basename(sv(h.f(code, "co_filename")))),
               S_.new.lget(r, 2) == h.f(S_.a.frame, "f_lineno"),
               S_.new.lget(r, 3) == h.f(code, "co_name"))


c.ens("event-file-line-function", _lfe, props=["C03"])
c.modifies = lambda S_: []
