"""Expression evaluation."""
import ast
import z3
from .core import (tkey, Val, VNone, VTrue, VFalse, VInt, VStr, VBool, VRef, VFloat, I, B, S, R, ArrIV, ArrVB, ArrVV,
                   ClassName, IsSub, StrOf, ReprOf, IdStr, Lower, TYPEBASE, HOST_CLASS_BASE, Unsupported,
                   FuncObj, BoundMethod, ClassObj, ModuleObj, ExternObj, BuiltinFn, SymCallable, SuperObj, Frame)
from .front import mangle
from .interp_base import PyRaise, ReturnEx, BreakEx, ContinueEx


class ExprMixin:
    # ------------------------------------------------------------------ truthiness
    def truth(self, v, node=None):
        v = z3.simplify(v)
        t = self.tag(v, "truth")
        if t == "none":
            return z3.BoolVal(False)
        if t == "bool":
            return Val.b(v)
        if t == "int":
            return Val.i(v) != 0
        if t == "str":
            return z3.Length(Val.s(v)) > 0
        if t == "float":
            return Val.f(v) != 0
        # ref
        ob = self.pyobj(v)
        if ob is not None:
            return z3.BoolVal(True)
        cid = self.class_of(v, "truth-class")
        if self.is_host_class(cid):
            res = self.host_op("bool", v, node)
            self.ctx.assume(Val.is_VBool(res))
            return Val.b(res)
        nm = self.table.names[cid]
        r = Val.r(v)
        if nm in ("list", "tuple", "deque", "set", "frozenset"):
            return self.llen(r) != 0
        if nm in ("dict", "OrderedDict"):
            return self.dlen(r) != 0
        ci = self.table.info.get(cid)
        if ci is not None:
            for special in ("__bool__", "__len__"):
                mem = self.index.lookup_member(ci, special)
                if mem and mem[0] == "method":
                    res = self.call_function(mem[1], None, [v], {}, node)
                    if special == "__bool__":
                        return Val.b(res)
                    return Val.i(res) != 0
        return z3.BoolVal(True)

    def cond(self, expr):
        """Evaluate an expression as a branch condition -> python bool (forks)."""
        v = self.eval(expr)
        return self.ctx.branch(self.truth(v, expr), "if")

    # ------------------------------------------------------------------ main dispatch
    def eval(self, e):
        m = getattr(self, "e_" + type(e).__name__, None)
        if m is None:
            raise Unsupported("expression %s" % type(e).__name__)
        return m(e)

    def e_Constant(self, e):
        v = e.value
        if v is None:
            return VNone
        if isinstance(v, bool):
            return VBool(v)
        if isinstance(v, int):
            return VInt(v)
        if isinstance(v, str):
            return VStr(v)
        if isinstance(v, float):
            return VFloat(v)
        if v is Ellipsis:
            return VNone
        raise Unsupported("constant %r" % (v,))

    def e_Name(self, e):
        return self.lookup_name(e.id, e)

    def e_Tuple(self, e):
        return self.st.new_list([self.eval(x) for x in e.elts], "tuple")

    def e_List(self, e):
        return self.st.new_list([self.eval(x) for x in e.elts], "list")

    def e_Set(self, e):
        return self.st.new_list([self.eval(x) for x in e.elts], "set")

    def e_Dict(self, e):
        if any(k is None for k in e.keys):
            # {**a, k: v, **b}: a new dict, filled left to right (later entries win)
            d = self.st.new_dict([])
            for k, v in zip(e.keys, e.values):
                if k is None:
                    src = self.eval(v)
                    if self.tag(src, "dict-unpack") != "ref":
                        self.raise_("TypeError", self.anchor(e))
                    self.b_dict_update([d, src], {}, e, self.anchor(e))
                    self.st.writes.pop()
                else:
                    kv, vv = self.eval(k), self.eval(v)
                    self.dict_set(Val.r(d), kv, vv)
                    self.st.writes.pop()
            return d
        pairs = []
        for k, v in zip(e.keys, e.values):
            pairs.append((self.eval(k), self.eval(v)))
        return self.st.new_dict(pairs)

    def e_Lambda(self, e):
        fi = _LambdaInfo(self.frame, e)
        return self.st.register(FuncObj(fi, self.frame))

    def e_IfExp(self, e):
        if self.cond(e.test):
            return self.eval(e.body)
        return self.eval(e.orelse)

    def e_BoolOp(self, e):
        is_and = isinstance(e.op, ast.And)
        v = None
        for i, sub in enumerate(e.values):
            v = self.eval(sub)
            if i == len(e.values) - 1:
                return v
            t = self.ctx.branch(self.truth(v, sub), "boolop")
            if is_and and not t:
                return v
            if (not is_and) and t:
                return v
        return v

    def e_UnaryOp(self, e):
        v = self.eval(e.operand)
        if isinstance(e.op, ast.Not):
            return Val.VBool(z3.Not(self.truth(v, e.operand)))
        t = self.tag(v, "unary")
        if isinstance(e.op, ast.USub):
            if t == "int":
                return Val.VInt(-Val.i(v))
            if t == "float":
                return Val.VFloat(-Val.f(v))
            if t == "bool":
                return Val.VInt(-z3.If(Val.b(v), 1, 0))
        raise Unsupported("unary op %s on %s" % (type(e.op).__name__, t))

    def e_JoinedStr(self, e):
        parts = []
        for p in e.values:
            if isinstance(p, ast.Constant):
                parts.append(z3.StringVal(p.value))
            elif isinstance(p, ast.FormattedValue):
                if p.format_spec is not None:
                    raise Unsupported("f-string format spec")
                v = self.eval(p.value)
                if p.conversion == 114:   # !r
                    parts.append(self.repr_checked(v, p))
                else:
                    parts.append(self.to_str_checked(v, p.value if hasattr(p.value, "lineno") else e))
            else:
                raise Unsupported("f-string part")
        if not parts:
            return VStr("")
        if len(parts) == 1:
            return Val.VStr(parts[0])
        return Val.VStr(z3.Concat(*parts))

    def repr_checked(self, v, node):
        t = self.tag(v, "repr-arg")
        if t == "ref":
            cid = self.class_of(v, "repr-class")
            if self.is_host_class(cid) or cid in self._containers():
                self.host_op("repr", v, node)
        return ReprOf(v)

    # ------------------------------------------------------------------ binary operators
    def num(self, v, t):
        """Int term of a bool/int value."""
        if t == "int":
            return Val.i(v)
        if t == "bool":
            return z3.If(Val.b(v), z3.IntVal(1), z3.IntVal(0))
        raise Unsupported("num of %s" % t)

    def e_BinOp(self, e):
        a = self.eval(e.left)
        b = self.eval(e.right)
        return self.binop(e.op, a, b, e)

    def binop(self, op, a, b, node):
        ta, tb = self.tag(a, "binop-l"), self.tag(b, "binop-r")
        nums = ("int", "bool")
        if isinstance(op, ast.Mod) and ta == "str":
            return self.str_percent(a, b, node)
        if ta in nums and tb in nums:
            x, y = self.num(a, ta), self.num(b, tb)
            if isinstance(op, ast.Add):
                return Val.VInt(x + y)
            if isinstance(op, ast.Sub):
                return Val.VInt(x - y)
            if isinstance(op, ast.Mult):
                return Val.VInt(x * y)
            if isinstance(op, (ast.FloorDiv, ast.Mod)):
                if self.ctx.branch(y == 0, "div0"):
                    self.raise_("ZeroDivisionError", self.anchor(node))
                # python floor semantics: result of // rounds toward -inf, % has sign of divisor
                q = z3.If(y > 0, x / y, (-x) / (-y))     # z3 integer division rounds so that remainder >= 0
                if isinstance(op, ast.FloorDiv):
                    return Val.VInt(q)
                return Val.VInt(x - q * y)
            if isinstance(op, ast.Div):
                if self.ctx.branch(y == 0, "div0"):
                    self.raise_("ZeroDivisionError", self.anchor(node))
                return Val.VFloat(z3.ToReal(x) / z3.ToReal(y))
            raise Unsupported("int op %s" % type(op).__name__)
        if (ta in nums + ("float",)) and (tb in nums + ("float",)):
            x = Val.f(a) if ta == "float" else z3.ToReal(self.num(a, ta))
            y = Val.f(b) if tb == "float" else z3.ToReal(self.num(b, tb))
            if isinstance(op, ast.Add):
                return Val.VFloat(x + y)
            if isinstance(op, ast.Sub):
                return Val.VFloat(x - y)
            if isinstance(op, ast.Mult):
                return Val.VFloat(x * y)
            if isinstance(op, ast.Div):
                if self.ctx.branch(y == 0, "div0"):
                    self.raise_("ZeroDivisionError", self.anchor(node))
                return Val.VFloat(x / y)
            if isinstance(op, ast.Mod):
                if self.ctx.branch(y == 0, "div0"):
                    self.raise_("ZeroDivisionError", self.anchor(node))
                res = self.ctx.fresh("fmod", R)
                self.ctx.assume(z3.Implies(y > 0, z3.And(res >= 0, res < y)))
                self.ctx.assume(z3.Implies(y < 0, z3.And(res <= 0, res > y)))
                return Val.VFloat(res)
            raise Unsupported("float op %s" % type(op).__name__)
        if ta == "str" and tb == "str" and isinstance(op, ast.Add):
            return Val.VStr(z3.Concat(Val.s(a), Val.s(b)))
        if ta == "ref" and tb == "ref" and isinstance(op, ast.Add):
            ca, cb = self.class_of(a, "add-l"), self.class_of(b, "add-r")
            if ca is not None and cb is not None and ca == cb and self.table.names.get(ca) in ("list", "tuple"):
                return self.list_concat(a, b, self.table.names[ca])
            if ca is not None and cb is not None and {self.table.names.get(ca), self.table.names.get(cb)} == {"list", "tuple"}:
                self.raise_("TypeError", self.anchor(node))
            raise Unsupported("+ on refs of class %s/%s" % (ca, cb))
        # mixed types: TypeError in Python for + - etc.
        if isinstance(op, (ast.Add, ast.Sub, ast.Mult, ast.Div, ast.FloorDiv, ast.Mod)) and \
                "ref" not in (ta, tb):
            if isinstance(op, ast.Mult) and {ta, tb} <= {"str", "int", "bool"} and ta != tb:
                raise Unsupported("string repetition")
            self.raise_("TypeError", self.anchor(node))
        if ta == "ref" or tb == "ref":
            # host operator overloads
            rv = a if ta == "ref" else b
            cid = self.class_of(rv, "binop-class")
            if self.is_host_class(cid):
                return self.host_op("binop_%s" % type(op).__name__, rv, node)
            self.raise_("TypeError", self.anchor(node))
        raise Unsupported("binop %s on %s,%s" % (type(op).__name__, ta, tb))

    def str_percent(self, fmt, arg, node):
        f = z3.simplify(Val.s(fmt))
        if not z3.is_string_value(f):
            raise Unsupported("%-format with non-constant format")
        text = f.as_string()
        # z3 escapes non-ascii; formats in the repo are ascii
        segs = text.split("%s")
        if "%" in "".join(segs).replace("%%", ""):
            raise Unsupported("format spec other than %%s in %r" % text)
        n = len(segs) - 1
        targ = self.tag(arg, "fmt-arg")
        args = None
        if targ == "ref" and not self.is_type_object(arg):
            cid = self.class_of(arg, "fmt-arg-class")
            if cid == self.table.id("tuple"):
                ln = self.ctx.value_of(self.llen(Val.r(arg)))
                if ln is None:
                    raise Unsupported("%-format with tuple of unknown length")
                args = [self.list_get(Val.r(arg), z3.IntVal(i)) for i in range(ln)]
        if args is None:
            args = [arg]
        if len(args) != n:
            self.raise_("TypeError", self.anchor(node))
        parts = []
        for i, sgm in enumerate(segs):
            if sgm:
                parts.append(z3.StringVal(sgm.replace("%%", "%")))
            if i < n:
                parts.append(self.to_str_checked(args[i], node))
        if not parts:
            return VStr("")
        return Val.VStr(parts[0] if len(parts) == 1 else z3.Concat(*parts))

    # ------------------------------------------------------------------ comparisons
    def e_Compare(self, e):
        left = self.eval(e.left)
        result = None
        for op, right_e in zip(e.ops, e.comparators):
            right = self.eval(right_e)
            c = self.compare(op, left, right, e)
            if len(e.ops) == 1:
                return Val.VBool(c)
            if not self.ctx.branch(c, "cmp-chain"):
                return VFalse
            result = VTrue
            left = right
        return result

    def py_eq(self, a, b, node=None):
        """z3 Bool for a == b with Python semantics on the modelled values."""
        a, b = z3.simplify(a), z3.simplify(b)
        if a.eq(b):
            ta = self.tag(a, "eq")
            if ta != "float":
                return z3.BoolVal(True)
        known = lambda t: z3.is_app(t) and t.decl().name() in ("VNone", "VBool", "VInt", "VStr", "VFloat", "VRef")
        if not known(a) and not known(b):
            # neither side has a syntactically known kind: avoid a 6x6 case split
            if not self.ctx.branch(z3.Or(Val.is_VRef(a), Val.is_VRef(b)), "eq-involves-object"):
                return self.prim_eq(a, b)
            ra = self.ctx.branch(Val.is_VRef(a), "eq-left-is-object")
            rv = a if ra else b
            if self.not_agent_object(rv):
                res = self.host_op("eq", rv, node)      # host __eq__ may run
                return self.truth(res, node)
        ta, tb = self.tag(a, "eq-l"), self.tag(b, "eq-r")
        nums = ("int", "bool")
        if ta in nums and tb in nums:
            return self.num(a, ta) == self.num(b, tb)
        if ta in nums + ("float",) and tb in nums + ("float",):
            x = Val.f(a) if ta == "float" else z3.ToReal(self.num(a, ta))
            y = Val.f(b) if tb == "float" else z3.ToReal(self.num(b, tb))
            return x == y
        if ta != tb:
            if "ref" in (ta, tb):
                rv = a if ta == "ref" else b
                cid = self.class_of(rv, "eq-class")
                if self.is_host_class(cid):
                    res = self.host_op("eq", rv, node)
                    return self.truth(res, node)
            return z3.BoolVal(False)
        if ta == "ref":
            oa, ob = self.pyobj(a), self.pyobj(b)
            if oa is not None or ob is not None:
                return a == b
            ca = self.class_of(a, "eq-class-l")
            cb = self.class_of(b, "eq-class-r")
            if self.is_host_class(ca) or self.is_host_class(cb):
                res = self.host_op("eq", a if self.is_host_class(ca) else b, node)
                return self.truth(res, node)
            na = self.table.names[ca]
            if na in ("list", "tuple", "dict", "set", "frozenset", "deque", "OrderedDict"):
                if self.ctx.must(a == b):
                    return z3.BoolVal(True)
                if ca != cb:
                    return z3.BoolVal(False)
                if na in ("list", "tuple"):
                    la = self.ctx.value_of(self.llen(Val.r(a)))
                    lb = self.ctx.value_of(self.llen(Val.r(b)))
                    if la is not None and lb is not None:
                        if la != lb:
                            return z3.BoolVal(False)
                        cs = [self.py_eq(self.list_get(Val.r(a), z3.IntVal(i)), self.list_get(Val.r(b), z3.IntVal(i)), node)
                              for i in range(la)]
                        return z3.And(*cs) if cs else z3.BoolVal(True)
                raise Unsupported("structural equality on containers")
            ci = self.table.info.get(ca)
            if ci is not None:
                mem = self.index.lookup_member(ci, "__eq__")
                if mem and mem[0] == "method":
                    res = self.call_function(mem[1], None, [a, b], {}, node)
                    return self.truth(res, node)
            return a == b
        return a == b

    def prim_eq(self, a, b):
        """a == b for two non-object values, as one formula (bool/int/float compare numerically)."""
        def numeric(v):
            return z3.Or(Val.is_VBool(v), Val.is_VInt(v), Val.is_VFloat(v))

        def real(v):
            return z3.If(Val.is_VBool(v), z3.If(Val.b(v), z3.RealVal(1), z3.RealVal(0)),
                         z3.If(Val.is_VInt(v), z3.ToReal(Val.i(v)), Val.f(v)))
        return z3.If(z3.And(numeric(a), numeric(b)), real(a) == real(b), a == b)

    def compare(self, op, a, b, node):
        if isinstance(op, ast.Is):
            return z3.simplify(a == b)
        if isinstance(op, ast.IsNot):
            return z3.simplify(a != b)
        if isinstance(op, ast.Eq):
            return self.py_eq(a, b, node)
        if isinstance(op, ast.NotEq):
            return z3.Not(self.py_eq(a, b, node))
        if isinstance(op, (ast.In, ast.NotIn)):
            c = self.contains(b, a, node)
            return c if isinstance(op, ast.In) else z3.Not(c)
        ta, tb = self.tag(a, "cmp-l"), self.tag(b, "cmp-r")
        nums = ("int", "bool")
        if ta in nums and tb in nums:
            x, y = self.num(a, ta), self.num(b, tb)
        elif ta in nums + ("float",) and tb in nums + ("float",):
            x = Val.f(a) if ta == "float" else z3.ToReal(self.num(a, ta))
            y = Val.f(b) if tb == "float" else z3.ToReal(self.num(b, tb))
        elif ta == "str" and tb == "str":
            x, y = Val.s(a), Val.s(b)
            if isinstance(op, ast.Lt):
                return x < y
            if isinstance(op, ast.LtE):
                return x <= y
            if isinstance(op, ast.Gt):
                return y < x
            if isinstance(op, ast.GtE):
                return y <= x
        else:
            if "ref" in (ta, tb):
                rv = a if ta == "ref" else b
                cid = self.class_of(rv, "cmp-class")
                if self.is_host_class(cid):
                    res = self.host_op("cmp", rv, node)
                    return self.truth(res, node)
            self.raise_("TypeError", self.anchor(node))
        if isinstance(op, ast.Lt):
            return x < y
        if isinstance(op, ast.LtE):
            return x <= y
        if isinstance(op, ast.Gt):
            return x > y
        if isinstance(op, ast.GtE):
            return x >= y
        raise Unsupported("compare op")

    def contains(self, container, item, node):
        tc = self.tag(container, "in-container")
        if tc == "str":
            ti = self.tag(item, "in-item")
            if ti != "str":
                self.raise_("TypeError", self.anchor(node))
            return z3.Contains(Val.s(container), Val.s(item))
        if tc != "ref":
            self.raise_("TypeError", self.anchor(node))
        cid = self.class_of(container, "in-class")
        if self.is_host_class(cid):
            res = self.host_op("contains", container, node)
            return self.truth(res, node)
        nm = self.table.names[cid]
        r = Val.r(container)
        if nm in ("dict", "OrderedDict"):
            return self.dhas(r, z3.simplify(item))
        if nm in ("list", "tuple", "set", "frozenset", "deque"):
            n = self.ctx.value_of(self.llen(r))
            if n is None:
                raise Unsupported("`in` over a sequence of unknown length")
            if n == 0:
                return z3.BoolVal(False)
            return z3.Or(*[self.py_eq(item, self.list_get(r, z3.IntVal(i)), node) for i in range(n)])
        ci = self.table.info.get(cid)
        if ci is not None:
            mem = self.index.lookup_member(ci, "__contains__")
            if mem and mem[0] == "method":
                return self.truth(self.call_function(mem[1], None, [container, item], {}, node), node)
            ext = self.index.extern_bases(ci)
            if any(x.endswith("MutableMapping") for x in ext):
                mem = self.index.lookup_member(ci, "__getitem__")
                # Mapping.__contains__: try self[key] except KeyError
                try:
                    self.call_function(mem[1], None, [container, item], {}, node)
                    return z3.BoolVal(True)
                except PyRaise as ex:
                    if self.ctx.branch(self.exc_isa(ex.exc, "KeyError"), "contains-keyerror"):
                        return z3.BoolVal(False)
                    raise
        raise Unsupported("`in` on class %s" % nm)

    # ------------------------------------------------------------------ subscripts
    def e_Subscript(self, e):
        base = self.eval(e.value)
        if isinstance(e.slice, ast.Slice):
            return self.slice_get(base, e.slice, e)
        idx = self.eval(e.slice)
        return self.getitem(base, idx, e)

    def norm_index(self, i, n):
        return z3.If(i < 0, i + n, i)

    def getitem(self, base, idx, node):
        tb = self.tag(base, "getitem")
        if tb == "str":
            ti = self.tag(idx, "getitem-idx")
            if ti not in ("int", "bool"):
                self.raise_("TypeError", self.anchor(node))
            n = z3.Length(Val.s(base))
            i = self.norm_index(self.num(idx, ti), n)
            if not self.ctx.branch(z3.And(i >= 0, i < n), "str-index-ok"):
                self.raise_("IndexError", self.anchor(node))
            return Val.VStr(z3.SubString(Val.s(base), i, 1))
        if tb != "ref":
            self.raise_("TypeError", self.anchor(node))
        ob = self.pyobj(base)
        if ob is not None:
            if isinstance(ob, (ClassObj, ExternObj)):
                return base      # typing generics: Dict[str, X]
            raise Unsupported("subscript on %s" % type(ob).__name__)
        cid = self.class_of(base, "getitem-class")
        if self.is_host_class(cid):
            return self.host_op("getitem", base, node)
        nm = self.table.names[cid]
        r = Val.r(base)
        if nm in ("dict", "OrderedDict"):
            k = z3.simplify(idx)
            if not self.ctx.branch(self.dhas(r, k), "dict-has-key"):
                self.raise_("KeyError", self.anchor(node), [k])
            val = self.dget(r, k)
            rs = z3.simplify(r)
            if any(z3.simplify(Val.r(hd)).eq(rs) for hd in
                   self.st.ghost.get("host_owned", []) + self.st.ghost.get("host_data_dicts", [])):
                from .contract import ANY as _ANY
                self.assume_shape(val, _ANY)      # values of a dictionary owned by the host program
            vs = self.st.ghost.get("dict_value_sorts", {}).get(tkey(base))
            if vs is not None:
                self.assume_shape(val, vs)      # declared value type of this (agent-owned) dictionary
            return val
        if nm in ("list", "tuple", "deque"):
            ti = self.tag(idx, "getitem-idx")
            if ti not in ("int", "bool"):
                self.raise_("TypeError", self.anchor(node))
            n = self.llen(r)
            i = self.norm_index(self.num(idx, ti), n)
            if not self.ctx.branch(z3.And(i >= 0, i < n), "index-ok"):
                self.raise_("IndexError", self.anchor(node))
            return self.list_get(r, z3.simplify(i))
        ci = self.table.info.get(cid)
        if ci is not None:
            mem = self.index.lookup_member(ci, "__getitem__")
            if mem and mem[0] == "method":
                return self.call_function(mem[1], None, [base, idx], {}, node)
        raise Unsupported("subscript on class %s" % nm)

    def clamp(self, i, n):
        i2 = z3.If(i < 0, i + n, i)
        return z3.If(i2 < 0, z3.IntVal(0), z3.If(i2 > n, n, i2))

    def slice_get(self, base, sl, node):
        if sl.step is not None:
            raise Unsupported("slice step")
        tb = self.tag(base, "slice")
        lo = self.eval(sl.lower) if sl.lower is not None else None
        hi = self.eval(sl.upper) if sl.upper is not None else None

        def bound(v, default, n):
            if v is None:
                return default
            t = self.tag(v, "slice-bound")
            if t == "none":
                return default
            if t not in ("int", "bool"):
                self.raise_("TypeError", self.anchor(node))
            return self.clamp(self.num(v, t), n)
        if tb == "str":
            s = Val.s(base)
            n = z3.Length(s)
            a = bound(lo, z3.IntVal(0), n)
            b = bound(hi, n, n)
            return Val.VStr(z3.SubString(s, a, z3.If(b - a < 0, z3.IntVal(0), b - a)))
        if tb != "ref":
            self.raise_("TypeError", self.anchor(node))
        cid = self.class_of(base, "slice-class")
        if self.is_host_class(cid):
            return self.host_op("getitem", base, node)
        nm = self.table.names[cid]
        if nm in ("list", "tuple"):
            r = Val.r(base)
            n = self.llen(r)
            a = bound(lo, z3.IntVal(0), n)
            b = bound(hi, n, n)
            i = z3.Int("i!slice")
            arr = z3.Lambda([i], z3.Select(self.lel(r), i + a))
            return self.st.new_list_arr(arr, z3.simplify(z3.If(b - a < 0, z3.IntVal(0), b - a)), nm)
        if nm == "bytes":
            # a slice of a bytes object: some other bytes object (its content is not tracked; it is the same object only
            # when nothing was cut, which the model does not decide)
            for bnd in (lo, hi):
                if bnd is not None and self.tag(bnd, "slice-bound") not in ("int", "bool", "none"):
                    self.raise_("TypeError", self.anchor(node))
            return VRef(self.st.alloc(self.table.id("bytes")))
        raise Unsupported("slice of %s" % nm)

    # ------------------------------------------------------------------ comprehensions
    def e_ListComp(self, e):
        return self.comprehension(e, "list")

    def e_GeneratorExp(self, e):
        return self.comprehension(e, "list")

    def e_DictComp(self, e):
        """{k: v for x in xs [if c]}: a small concrete iterable is unrolled; otherwise the element expressions are evaluated
        for an arbitrary element (their obligations are checked) and the result is an abstract dict (contents unknown)."""
        if len(e.generators) != 1:
            raise Unsupported("nested comprehension")
        g = e.generators[0]
        it = self.eval(g.iter)
        seq = self.iter_sequence(it, g.iter)
        n = self.ctx.value_of(seq.length) if seq.kind == "list" else None
        scope = Frame(self.frame.fi, self.frame, self.frame.lexical_class, self.frame.module)
        scope.prefix = self.frame.prefix
        self.frames.append(scope)
        try:
            d = self.st.new_dict([])
            if n is not None and n <= 8:
                for k_ in range(n):
                    self.assign_target(g.target, seq.element(z3.IntVal(k_)))
                    if all(self.ctx.branch(self.truth(self.eval(c), c), "comp-if") for c in g.ifs):
                        kv, vv = self.eval(e.key), self.eval(e.value)
                        self.dict_set(Val.r(d), kv, vv)
                        self.st.writes.pop()
                return d
            idx = self.ctx.fresh("comp_i", I)
            self.ctx.assume(z3.And(idx >= 0, idx < seq.length))
            self.assign_target(g.target, seq.element(idx))
            w0 = len(self.st.writes)
            self._comp_alloc_mark = self.st.next_id
            if all(self.ctx.branch(self.truth(self.eval(c), c), "comp-if") for c in g.ifs):
                self.eval(e.key)
                self.eval(e.value)
            self._havoc_written(self.st.writes[w0:], idx)
            r = Val.r(d)
            self.st.dhas = z3.Store(self.st.dhas, r, self.ctx.fresh("dcomp_has", ArrVB))
            self.st.dval = z3.Store(self.st.dval, r, self.ctx.fresh("dcomp_val", ArrVV))
            ln = self.ctx.fresh("dcomp_len", I)
            self.ctx.assume(z3.And(ln >= 0, ln <= seq.length))
            self.st.dlen = z3.Store(self.st.dlen, r, ln)
            return d
        finally:
            self.frames.pop()

    def _havoc_written(self, writes, idx):
        """Writes performed for the arbitrary element happen for every element: forget those heap parts."""
        for (kind, ref, name) in writes:
            if ref is not None:
                rr = z3.simplify(ref)
                if z3.is_int_value(rr) and rr.as_long() >= self._comp_alloc_mark:
                    continue        # object created for this very element: private to the iteration
            if kind == "field":
                self.st.fields[name] = self.ctx.fresh("hvF_" + name, ArrIV)
                self.st.writes.append(("field*", None, name))
            elif kind == "list":
                if ref is not None and not _mentions(ref, idx):
                    self.apply_havoc([("list", VRef(ref))])
                else:
                    self.apply_havoc([("list*",)])
                    self.st.writes.append(("list*", None, None))
            elif kind == "dict":
                if ref is not None and not _mentions(ref, idx):
                    self.apply_havoc([("dict", VRef(ref))])
                else:
                    self.apply_havoc([("dict*",)])
                    self.st.writes.append(("dict*", None, None))
            elif kind in ("field*", "list*", "dict*", "all"):
                self.apply_havoc([(kind,) if kind != "field*" else ("field*", name)])

    def comprehension(self, e, kind):
        if len(e.generators) != 1:
            raise Unsupported("nested comprehension")
        g = e.generators[0]
        it = self.eval(g.iter)
        seq = self.iter_sequence(it, g.iter)
        n = self.ctx.value_of(seq.length) if seq.kind == "list" else None
        scope = Frame(self.frame.fi, self.frame, self.frame.lexical_class, self.frame.module)
        scope.prefix = self.frame.prefix
        self.frames.append(scope)
        try:
            if n is not None and n <= 8:
                out = []
                for k in range(n):
                    self.assign_target(g.target, seq.element(z3.IntVal(k)))
                    if all(self.ctx.branch(self.truth(self.eval(c), c), "comp-if") for c in g.ifs):
                        out.append(self.eval(e.elt))
                return self.st.new_list(out, kind)
            # arbitrary element: obligations inside the element expression are checked once for an
            # arbitrary index idx (for-each lifting).  Result: without a filter, length n and - when the
            # element expression evaluated without case split or allocation - exactly the mapped array
            # (lambda j. elt[j/idx]); otherwise an abstract array known only at idx.  Heap parts written by
            # the element expression are written for *every* element, so they are havocked afterwards.
            idx = self.ctx.fresh("comp_i", I)
            self.ctx.assume(z3.And(idx >= 0, idx < seq.length))
            self.assign_target(g.target, seq.element(idx))
            w0, pos0, id0 = len(self.st.writes), self.ctx.pos, getattr(self.st, 'n_data_alloc', 0)
            self._comp_alloc_mark = self.st.next_id
            passes = all(self.ctx.branch(self.truth(self.eval(c), c), "comp-if") for c in g.ifs)
            elt = self.eval(e.elt) if passes else None
            forked = any(d[1] for d in self.ctx.trace[pos0:]) or self.ctx.pos != pos0 and \
                any(True for d in self.ctx.trace[pos0:] if d[1])
            pure = (not forked) and getattr(self.st, 'n_data_alloc', 0) == id0 and not g.ifs
            self._havoc_written(self.st.writes[w0:], idx)
            rid = self.st.alloc(self.table.id(kind))
            r = z3.IntVal(rid)
            if pure and elt is not None:
                j = z3.Int("j!comp")
                arr = z3.Lambda([j], z3.substitute(elt, (idx, j)))
                ln = seq.length
            else:
                arr = self.ctx.fresh("comp_arr", ArrIV)
                ln = self.ctx.fresh("comp_len", I)
                self.ctx.assume(z3.And(ln >= 0, ln <= seq.length))
                if not g.ifs and elt is not None:
                    self.ctx.assume(ln == seq.length)
                    self.ctx.assume(z3.Select(arr, idx) == elt)
            self.st.lel = z3.Store(self.st.lel, r, arr)
            self.st.llen = z3.Store(self.st.llen, r, ln)
            if elt is not None:
                self.st.ghost.setdefault("comp_witness", {})[rid] = {"idx": idx, "elt": elt, "seq": seq, "arr": arr, "len": ln,
                                                                     "total": not g.ifs}
                er = z3.simplify(Val.r(elt)) if z3.is_app(z3.simplify(elt)) and z3.simplify(elt).decl().name() == "VRef" else None
                if er is not None and z3.is_int_value(er) and er.as_long() >= self._comp_alloc_mark and not pure:
                    # every element is an object created by its own iteration (for-each lifting)
                    jj = z3.Int("j!fresh")
                    ej = z3.Select(arr, jj)
                    tcls = z3.simplify(z3.Select(self.st.typeof, er))
                    _lo, _hi = self.st.reserve_region()       # the objects the other iterations create live here
                    self.ctx.assume(z3.ForAll([jj], z3.Implies(z3.And(jj >= 0, jj < ln), z3.And(
                        Val.is_VRef(ej), Val.r(ej) >= self._comp_alloc_mark, Val.r(ej) < _hi,
                        z3.Select(self.st.typeof, Val.r(ej)) == tcls))))
            return VRef(rid)
        finally:
            self.frames.pop()


def _mentions(term, const):
    seen = set()
    todo = [term]
    while todo:
        t = todo.pop()
        if t.get_id() in seen:
            continue
        seen.add(t.get_id())
        if t.eq(const):
            return True
        todo.extend(t.children())
    return False


class _LambdaInfo:
    """FuncInfo-like wrapper for a lambda expression."""

    def __init__(self, frame, node):
        self.node = _as_funcdef(node)
        self.module = frame.module
        self.cls = None
        self.parent = frame.fi
        self.name = "<lambda>"
        self.qualname = ((frame.fi.qualname + ".<locals>.") if frame.fi is not None else "") + "<lambda>"

    @property
    def key(self):
        return "%s:%s@%d" % (self.module.relpath, self.qualname, self.node.lineno)

    @property
    def decorator_names(self):
        return set()


def _as_funcdef(lam):
    fd = ast.FunctionDef(name="<lambda>", args=lam.args, body=[ast.Return(value=lam.body)], decorator_list=[],
                         returns=None, type_comment=None)
    ast.copy_location(fd, lam)
    ast.copy_location(fd.body[0], lam)
    fd.is_lambda = True
    return fd
