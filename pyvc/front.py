"""Front end: index of the real source under /repo/src/deep.

Re-read on every run.  Nothing here is a model of the code: it only locates
the `ast` of functions/classes by qualified name, resolves names through the
module's imports, and folds module-level constants (string / number / list /
tuple literals and `+` / `+=` on those).

What is dropped: docstrings, comments, type annotations, `if TYPE_CHECKING:`
blocks.  Everything else is kept and handed to the symbolic executor.
"""
import ast
import hashlib
import os

REPO_SRC = os.environ.get("PYVC_REPO_SRC", "/repo/src")
PKG = "deep"


class ClassInfo:
    def __init__(self, module, qualname, node):
        self.module = module
        self.qualname = qualname
        self.name = node.name
        self.node = node
        self.bases_expr = node.bases
        self.methods = {}       # name -> FunctionDef (plain, static, class)
        self.properties = {}    # name -> {'get': FunctionDef, 'set': FunctionDef}
        self.class_attrs = {}   # name -> ast expr
        self.nested = {}        # name -> ClassInfo
        self.decorators = {}    # method name -> set of decorator names
        self.closure_of = None  # FuncInfo if local class
        self.bases = None       # resolved lazily: list of ClassInfo or ('extern', name)

    def __repr__(self):
        return "<class %s:%s>" % (self.module.name, self.qualname)

    @property
    def key(self):
        return "%s:%s" % (self.module.relpath, self.qualname)


class FuncInfo:
    def __init__(self, module, qualname, node, cls=None, parent=None):
        self.module = module
        self.qualname = qualname
        self.node = node
        self.cls = cls          # ClassInfo if method
        self.parent = parent    # enclosing FuncInfo if nested
        self.name = node.name

    @property
    def key(self):
        return "%s:%s" % (self.module.relpath, self.qualname)

    def __repr__(self):
        return "<func %s>" % self.key

    def source_segment(self):
        return ast.get_source_segment(self.module.source, self.node) or ""

    def sha256(self):
        return hashlib.sha256(self.source_segment().encode()).hexdigest()

    @property
    def decorator_names(self):
        out = set()
        for d in self.node.decorator_list:
            if isinstance(d, ast.Name):
                out.add(d.id)
            elif isinstance(d, ast.Attribute):
                out.add(d.attr if not isinstance(d.value, ast.Name) else "%s.%s" % (d.value.id, d.attr))
        return out


class ModuleInfo:
    def __init__(self, name, relpath, path):
        self.name = name
        self.relpath = relpath     # relative to src/deep, e.g. api/tracepoint/trigger.py
        self.path = path
        self.source = open(path, encoding="utf-8").read()
        self.tree = ast.parse(self.source, filename=path)
        self.is_pkg = path.endswith("__init__.py")
        self.globals = {}          # name -> binding tuple
        self.functions = {}        # qualname -> FuncInfo (all nesting levels)
        self.classes = {}          # qualname -> ClassInfo
        self.const_stmts = []      # module-level Assign/AugAssign in order

    def __repr__(self):
        return "<module %s>" % self.name


def _is_type_checking(test):
    return (isinstance(test, ast.Name) and test.id == "TYPE_CHECKING") or \
           (isinstance(test, ast.Attribute) and test.attr == "TYPE_CHECKING")


class Index:
    def __init__(self, src_root=None):
        self.src_root = src_root or REPO_SRC
        self.modules = {}      # dotted name -> ModuleInfo
        self.by_relpath = {}
        self._load()

    # -------------------------------------------------------------- loading
    def _load(self):
        base = os.path.join(self.src_root, PKG)
        for dirpath, _dirs, files in os.walk(base):
            for f in sorted(files):
                if not f.endswith(".py"):
                    continue
                path = os.path.join(dirpath, f)
                rel = os.path.relpath(path, base)
                parts = [PKG] + rel[:-3].split(os.sep)
                if parts[-1] == "__init__":
                    parts = parts[:-1]
                name = ".".join(parts)
                m = ModuleInfo(name, rel, path)
                self.modules[name] = m
                self.by_relpath[rel] = m
        for m in self.modules.values():
            self._scan_module(m)
        self.final_fields = self._final_fields()

    def _final_fields(self):
        """Fields (name-mangled) that are only ever assigned as `self.<f> = ...` inside an `__init__`: once an object is
        constructed nobody rebinds them, so a call that may modify anything still leaves them as they are.  (Reflection and
        stores through a mangled name from host code are excluded by the encapsulation assumption.)"""
        in_init, elsewhere = set(), set()
        for m in self.modules.values():
            tree = getattr(m, "tree", None)
            if tree is None:
                continue

            def visit(node, cls, fn):
                for ch in ast.iter_child_nodes(node):
                    if isinstance(ch, ast.ClassDef):
                        visit(ch, ch.name, None)
                        continue
                    if isinstance(ch, (ast.FunctionDef, ast.AsyncFunctionDef)):
                        visit(ch, cls, ch)
                        continue
                    if isinstance(ch, ast.Attribute) and isinstance(ch.ctx, (ast.Store, ast.Del)):
                        name = mangle(ch.attr, cls)
                        first = fn.args.args[0].arg if fn is not None and fn.args.args else None
                        ok = (fn is not None and fn.name == "__init__" and isinstance(ch.ctx, ast.Store)
                              and isinstance(ch.value, ast.Name) and ch.value.id == first)
                        (in_init if ok else elsewhere).add(name)
                    if isinstance(ch, ast.Call) and isinstance(ch.func, ast.Name) and ch.func.id in ("setattr", "delattr"):
                        if len(ch.args) >= 2 and isinstance(ch.args[1], ast.Constant) and isinstance(ch.args[1].value, str):
                            elsewhere.add(mangle(ch.args[1].value, cls))
                        else:
                            elsewhere.add("*")
                    visit(ch, cls, fn)
            visit(tree, None, None)
        if "*" in elsewhere:
            return set()
        return in_init - elsewhere

    def _abs_import(self, m, node):
        if node.level == 0:
            return node.module
        pkg_parts = m.name.split(".")
        if not m.is_pkg:
            pkg_parts = pkg_parts[:-1]
        if node.level > 1:
            pkg_parts = pkg_parts[:-(node.level - 1)]
        if node.module:
            pkg_parts = pkg_parts + node.module.split(".")
        return ".".join(pkg_parts)

    def _scan_imports(self, m, stmts, into):
        for st in stmts:
            if isinstance(st, ast.Import):
                for a in st.names:
                    if a.asname:
                        into[a.asname] = ("module", a.name)
                    else:
                        into[a.name.split(".")[0]] = ("module", a.name.split(".")[0])
            elif isinstance(st, ast.ImportFrom):
                mod = self._abs_import(m, st)
                for a in st.names:
                    into[a.asname or a.name] = ("import", mod, a.name)

    def _scan_module(self, m):
        for st in m.tree.body:
            if isinstance(st, (ast.Import, ast.ImportFrom)):
                self._scan_imports(m, [st], m.globals)
            elif isinstance(st, ast.If) and _is_type_checking(st.test):
                self._scan_imports(m, st.body, m.globals)   # names only used in annotations
            elif isinstance(st, ast.FunctionDef):
                fi = FuncInfo(m, st.name, st)
                m.functions[st.name] = fi
                m.globals[st.name] = ("func", fi)
                self._scan_nested(m, fi, st.name)
            elif isinstance(st, ast.ClassDef):
                ci = self._scan_class(m, st, st.name, None)
                m.globals[st.name] = ("class", ci)
            elif isinstance(st, (ast.Assign, ast.AugAssign, ast.AnnAssign)):
                m.const_stmts.append(st)
                targets = st.targets if isinstance(st, ast.Assign) else [st.target]
                for t in targets:
                    if isinstance(t, ast.Name):
                        if isinstance(st, ast.AugAssign):
                            prev = m.globals.get(t.id)
                            m.globals[t.id] = ("constexpr_aug", prev, st)
                        elif getattr(st, "value", None) is not None:
                            m.globals[t.id] = ("constexpr", st.value)

    def _scan_class(self, m, node, qualname, closure_of):
        ci = ClassInfo(m, qualname, node)
        ci.closure_of = closure_of
        m.classes[qualname] = ci
        for st in node.body:
            if isinstance(st, ast.FunctionDef):
                decos = set()
                for d in st.decorator_list:
                    if isinstance(d, ast.Name):
                        decos.add(d.id)
                    elif isinstance(d, ast.Attribute):
                        decos.add("%s.%s" % (getattr(d.value, "id", "?"), d.attr))
                fi = FuncInfo(m, "%s.%s" % (qualname, st.name), st, cls=ci, parent=closure_of)
                m.functions[fi.qualname] = fi
                if "property" in decos:
                    ci.properties.setdefault(st.name, {})["get"] = fi
                elif any(d.endswith(".setter") for d in decos):
                    ci.properties.setdefault(st.name, {})["set"] = fi
                else:
                    ci.methods[st.name] = fi
                ci.decorators[st.name] = decos | ci.decorators.get(st.name, set())
                self._scan_nested(m, fi, fi.qualname)
            elif isinstance(st, ast.ClassDef):
                ci.nested[st.name] = self._scan_class(m, st, "%s.%s" % (qualname, st.name), closure_of)
            elif isinstance(st, ast.Assign):
                for t in st.targets:
                    if isinstance(t, ast.Name):
                        ci.class_attrs[t.id] = st.value
            elif isinstance(st, ast.AnnAssign) and st.value is not None and isinstance(st.target, ast.Name):
                ci.class_attrs[st.target.id] = st.value
        return ci

    def _scan_nested(self, m, fi, qualprefix):
        for st in ast.walk(fi.node):
            pass
        # direct children only (nested deeper are found recursively)
        def visit(stmts):
            for st in stmts:
                if isinstance(st, ast.FunctionDef):
                    q = "%s.<locals>.%s" % (qualprefix, st.name)
                    sub = FuncInfo(m, q, st, parent=fi)
                    m.functions[q] = sub
                    self._scan_nested(m, sub, q)
                elif isinstance(st, ast.ClassDef):
                    q = "%s.<locals>.%s" % (qualprefix, st.name)
                    self._scan_class(m, st, q, fi)
                else:
                    for field in ("body", "orelse", "finalbody"):
                        sub = getattr(st, field, None)
                        if isinstance(sub, list):
                            visit(sub)
                    if isinstance(st, ast.Try):
                        for h in st.handlers:
                            visit(h.body)
        visit(fi.node.body)

    # ------------------------------------------------------------- lookups
    def module_by_relpath(self, rel):
        return self.by_relpath[rel]

    def function(self, relpath, qualname):
        m = self.by_relpath.get(relpath)
        if m is None:
            return None
        return m.functions.get(qualname)

    def cls(self, relpath, qualname):
        m = self.by_relpath.get(relpath)
        if m is None:
            return None
        return m.classes.get(qualname)

    def find_class(self, name):
        """Find a class by bare or module-qualified name ('Trigger', 'trigger.py:Trigger')."""
        if ":" in name:
            rel, q = name.split(":", 1)
            return self.cls(rel, q)
        hits = [c for m in self.modules.values() for q, c in m.classes.items() if q == name]
        if len(hits) == 1:
            return hits[0]
        if not hits:
            # maybe nested or local qualname suffix
            hits = [c for m in self.modules.values() for q, c in m.classes.items() if q.endswith("." + name)]
            if len(hits) == 1:
                return hits[0]
        if not hits:
            return None
        raise KeyError("ambiguous class name %s: %s" % (name, hits))

    def resolve_global(self, m, name, _depth=0):
        """Resolve a module-global name to a binding:
        ('func', FuncInfo) | ('class', ClassInfo) | ('constexpr', expr, module) |
        ('module', dotted) | ('extern', dotted) | None"""
        if _depth > 12:
            return None
        b = m.globals.get(name)
        if b is None:
            return None
        kind = b[0]
        if kind in ("func", "class"):
            return b
        if kind == "constexpr":
            return ("constexpr", b[1], m)
        if kind == "constexpr_aug":
            return ("constexpr_aug", b[1], b[2], m)
        if kind == "module":
            dotted = b[1]
            if dotted in self.modules:
                return ("module", dotted)
            return ("extern", dotted)
        if kind == "import":
            mod, attr = b[1], b[2]
            if mod in self.modules:
                tm = self.modules[mod]
                r = self.resolve_global(tm, attr, _depth + 1)
                if r is not None:
                    return r
                sub = "%s.%s" % (mod, attr)
                if sub in self.modules:
                    return ("module", sub)
                return None
            sub = "%s.%s" % (mod, attr)
            if sub in self.modules:
                return ("module", sub)
            return ("extern", sub)
        return None

    def class_bases(self, ci):
        if ci.bases is not None:
            return ci.bases
        out = []
        for b in ci.bases_expr:
            r = None
            if isinstance(b, ast.Name):
                # local classes may subclass names from enclosing module
                r = self.resolve_global(ci.module, b.id)
                if r is None and b.id in ci.module.classes:
                    r = ("class", ci.module.classes[b.id])
                if r and r[0] == "class":
                    out.append(r[1])
                    continue
                if r and r[0] == "extern":
                    out.append(("extern", r[1]))
                    continue
                out.append(("extern", b.id))
            elif isinstance(b, ast.Attribute):
                # abc.ABC, string.Formatter, Location.Position ...
                parts = []
                cur = b
                while isinstance(cur, ast.Attribute):
                    parts.append(cur.attr)
                    cur = cur.value
                if isinstance(cur, ast.Name):
                    parts.append(cur.id)
                out.append(("extern", ".".join(reversed(parts))))
            elif isinstance(b, ast.Subscript):   # Generic[T]
                out.append(("extern", "typing.Generic"))
            else:
                out.append(("extern", ast.dump(b)))
        ci.bases = out
        return out

    def mro(self, ci):
        """C3-less linearisation good enough for this code base (depth-first, left to right,
        duplicates removed keeping the last occurrence, as C3 does for the diamond shapes here)."""
        order = []

        def walk(c):
            order.append(c)
            for b in self.class_bases(c):
                if isinstance(b, ClassInfo):
                    walk(b)
        walk(ci)
        seen = set()
        out = []
        for c in reversed(order):
            if id(c) not in seen:
                seen.add(id(c))
                out.append(c)
        out.reverse()
        # `out` keeps first occurrences after reversing twice = last occurrence order; for the
        # single diamond in the repo (SnapshotActionContext(FrameCollectorContext, ActionContext)) and
        # CallbackContext(Location, ActionCallback) this equals CPython's C3 result.
        return out

    def extern_bases(self, ci):
        out = []
        for c in self.mro(ci):
            for b in self.class_bases(c):
                if not isinstance(b, ClassInfo):
                    out.append(b[1])
        return out

    def lookup_member(self, ci, name):
        """('method', FuncInfo, owner) | ('property', dict, owner) | ('classattr', expr, owner) | None"""
        for c in self.mro(ci):
            if name in c.properties:
                return ("property", c.properties[name], c)
            if name in c.methods:
                return ("method", c.methods[name], c)
            if name in c.class_attrs:
                return ("classattr", c.class_attrs[name], c)
            if name in c.nested:
                return ("nestedclass", c.nested[name], c)
        return None

    def instance_fields(self, ci):
        """Attribute names assigned through `self.X = ...` in any method of the MRO (mangled)."""
        out = set()
        for c in self.mro(ci):
            for fi in list(c.methods.values()) + [p[k] for p in c.properties.values() for k in p]:
                args = fi.node.args.args
                if not args:
                    continue
                selfname = args[0].arg
                for n in ast.walk(fi.node):
                    if isinstance(n, ast.Attribute) and isinstance(n.ctx, ast.Store) and \
                            isinstance(n.value, ast.Name) and n.value.id == selfname:
                        out.add(mangle(n.attr, c.name))
        return out

    def field_const_sort(self, ci, mangled):
        """'bool' | 'int' | 'str' when every `self.<field> = ...` in the class hierarchy assigns a constant of
        that one type (augmented assignments excluded); else None.  Used as an inferred field invariant."""
        cache = self.__dict__.setdefault("_fcs", {})
        key = (id(ci), mangled)
        if key in cache:
            return cache[key]
        kinds = set()
        for c in self.mro(ci) + self.subclasses(ci):
            for fi in list(c.methods.values()) + [p[k] for p in c.properties.values() for k in p]:
                args = fi.node.args.args
                if not args:
                    continue
                selfname = args[0].arg
                for n in ast.walk(fi.node):
                    tgts = []
                    if isinstance(n, ast.Assign):
                        tgts, val = n.targets, n.value
                    elif isinstance(n, ast.AnnAssign) and n.value is not None:
                        tgts, val = [n.target], n.value
                    elif isinstance(n, ast.AugAssign):
                        tgts, val = [n.target], None
                    for t in tgts:
                        if isinstance(t, ast.Attribute) and isinstance(t.value, ast.Name) and t.value.id == selfname \
                                and mangle(t.attr, c.name) == mangled:
                            if isinstance(val, ast.Constant) and isinstance(val.value, (bool, int, str)):
                                kinds.add(type(val.value).__name__)
                            else:
                                kinds.add("?")
        res = kinds.pop() if len(kinds) == 1 else None
        if res == "?":
            res = None
        cache[key] = res
        return res

    def subclasses(self, ci):
        out = []
        for m in self.modules.values():
            for c in m.classes.values():
                if c is not ci and ci in self.mro(c):
                    out.append(c)
        return out


def mangle(attr, clsname):
    if clsname and attr.startswith("__") and not attr.endswith("__"):
        return "_%s%s" % (clsname.lstrip("_"), attr)
    return attr


def call_ordinals(fnode):
    """Map id(Call node) -> 'callee#k' with k the ordinal of that callee name in source order."""
    counts = {}
    out = {}
    calls = [n for n in ast.walk(fnode) if isinstance(n, ast.Call)]
    calls.sort(key=lambda n: (n.lineno, n.col_offset))
    for n in calls:
        f = n.func
        if isinstance(f, ast.Name):
            nm = f.id
        elif isinstance(f, ast.Attribute):
            nm = f.attr
        else:
            nm = "<expr>"
        counts[nm] = counts.get(nm, 0) + 1
        out[id(n)] = "%s#%d" % (nm, counts[nm])
    return out


def node_ordinals(fnode, types, label):
    nodes = [n for n in ast.walk(fnode) if isinstance(n, types)]
    nodes.sort(key=lambda n: (n.lineno, n.col_offset))
    return {id(n): "%s#%d" % (label, i + 1) for i, n in enumerate(nodes)}


def local_binding_order(fnode):
    """Names bound in a function, in order of first binding in the source: parameters, then assignment / loop / with / except
    targets (nested function and class bodies excluded).  Used to recognise a local after it has been renamed."""
    out = []
    a = fnode.args
    for x in a.posonlyargs + a.args + ([a.vararg] if a.vararg else []) + a.kwonlyargs + ([a.kwarg] if a.kwarg else []):
        out.append(x.arg)
    found = []

    def tgt(t, pos):
        if isinstance(t, ast.Name):
            found.append((pos, t.id))
        elif isinstance(t, (ast.Tuple, ast.List)):
            for e in t.elts:
                tgt(e, (e.lineno, e.col_offset))
        elif isinstance(t, ast.Starred):
            tgt(t.value, pos)

    def walk(node):
        for ch in ast.iter_child_nodes(node):
            if isinstance(ch, (ast.FunctionDef, ast.AsyncFunctionDef, ast.ClassDef, ast.Lambda)):
                continue
            if isinstance(ch, ast.Assign):
                for t in ch.targets:
                    tgt(t, (t.lineno, t.col_offset))
            elif isinstance(ch, (ast.AugAssign, ast.AnnAssign)):
                tgt(ch.target, (ch.target.lineno, ch.target.col_offset))
            elif isinstance(ch, (ast.For, ast.AsyncFor)):
                tgt(ch.target, (ch.target.lineno, ch.target.col_offset))
            elif isinstance(ch, (ast.With, ast.AsyncWith)):
                for it in ch.items:
                    if it.optional_vars is not None:
                        tgt(it.optional_vars, (it.optional_vars.lineno, it.optional_vars.col_offset))
            elif isinstance(ch, ast.ExceptHandler) and ch.name:
                found.append(((ch.lineno, ch.col_offset), ch.name))
            elif isinstance(ch, ast.NamedExpr):
                tgt(ch.target, (ch.target.lineno, ch.target.col_offset))
            walk(ch)
    walk(fnode)
    for _pos, nm in sorted(found):
        if nm not in out:
            out.append(nm)
    return out


def loop_keys(fnode):
    """ordinal label -> iterable / test text of every loop of a function (same labels as the interpreter's anchors)"""
    m = node_ordinals(fnode, (ast.For, ast.While, ast.ListComp, ast.DictComp, ast.GeneratorExp), "loop")
    # (the interpreter labels a while loop by its ordinal among the tests of the function: anchors_for)
    mt = node_ordinals(fnode, (ast.If, ast.IfExp, ast.BoolOp, ast.While), "test")
    out = {}
    for n in ast.walk(fnode):
        if isinstance(n, ast.For) and id(n) in m:
            out[m[id(n)]] = "iter:" + ast.unparse(n.iter)
        elif isinstance(n, ast.While) and id(n) in mt:
            out[mt[id(n)]] = "while:" + ast.unparse(n.test)
    return out
