"""Statement execution, loops (invariant rule / for-each rule), try/with."""
import ast
import z3
from .core import (tkey, Val, VNone, VTrue, VFalse, VInt, VStr, VBool, VRef, I, B, ArrIV, ArrVB, ArrVV, Unsupported, PathAbort,
                   FuncObj, ClassObj, ModuleObj, ExternObj, Frame, TYPEBASE)
from .front import mangle
from .interp_base import PyRaise, ReturnEx, BreakEx, ContinueEx


from .contract import ANY as ANY_SORT


class Seq:
    """An iterable unfolded into an indexable sequence for the loop rules."""

    def __init__(self, kind, length, element, source=None):
        self.kind = kind          # 'list' | 'dict'
        self.length = length
        self.element = element    # fn(index term) -> Val
        self.source = source


class LoopCtx:
    """What a loop invariant may talk about (roles, not incidental names where possible)."""

    def __init__(self, interp, frame, index=None, seq=None, pre=None, assigned=None, node=None):
        self.I = interp
        self.frame = frame
        self.index = index
        self.seq = seq
        self.pre = pre            # snapshot at loop entry
        self.pre_locals = None
        self.assigned = assigned or []
        self.node = node

    def _alias(self, name, have):
        """The current name of a local the contract knows under the name it had on the unchanged tree: same position in
        the function's order of first bindings (baseline/roles.json)."""
        if name in have:
            return name
        from .front import local_binding_order
        fi = self.frame.fi
        roles = _roles().get(fi.key) if fi is not None else None
        if roles and name in roles.get("locals", []):
            k = roles["locals"].index(name)
            now = local_binding_order(fi.node)
            if k < len(now) and len(now) == len(roles["locals"]):
                return now[k]
        return name

    def local(self, name):
        f = self.frame
        have = set()
        g = f
        while g is not None:
            have.update(g.locals)
            g = g.parent
        name = self._alias(name, have)
        while f is not None:
            if name in f.locals:
                return f.locals[name]
            f = f.parent
        raise KeyError(name)

    def iter_pre_local(self, name):
        return self.iter_pre_locals[self._alias(name, set(self.iter_pre_locals))]

    def acc(self, k):
        """k-th local assigned in the loop body, by order of first assignment (robust to renaming)."""
        return self.local(self.assigned[k])

    def pre_local(self, name):
        return self.pre_locals[self._alias(name, set(self.pre_locals))]

    # heaps for loop specifications
    def now(self):
        from .contract import Heap, _LiveSnap
        return Heap(None, _LiveSnap(self.I.st))

    def at_entry(self):
        from .contract import Heap
        return Heap(None, self.pre)

    def at_iteration_start(self):
        from .contract import Heap
        return Heap(None, self.iter_pre)

    def allocated(self, v):
        """v is an object that already exists (cannot alias anything allocated from now on)."""
        return z3.And(Val.is_VRef(v), Val.r(v) > 0, Val.r(v) < self.I.st.next_id)

    @property
    def spec(self):
        """a specification context (class ids, quantifier helpers) for predicates shared with contracts"""
        from .contract import SpecCtx
        if getattr(self, "_spec", None) is None:
            self._spec = SpecCtx(self.I, self.I.top, {}, self.pre)
        return self._spec

    def created_in_loop(self, v):
        """v is an object created by an iteration of this loop (earlier ones: a reserved block of references;
        the current one: whatever was allocated since)."""
        return z3.And(Val.is_VRef(v), Val.r(v) >= self.region_lo, Val.r(v) < self.I.st.next_id)

    def iter_log(self):
        return self.I.st.log[self.iter_log_start:]

    def iter_yields(self):
        """values this iteration of a generator's loop has yielded so far"""
        ys = self.I.st.ghost.get("yields")
        return list(ys[-1][self.iter_yields_start:]) if ys else []

    def cid(self, name):
        t = self.I.table
        return t.ids[name] if name in t.ids else self.I.index.find_class(name).cid


_ROLES = {}


def _roles():
    """baseline/roles.json: per function of the unchanged tree, the order of first bindings of its locals and the text of
    its loops (written by `bin/check --mkbaseline`; only consulted when a name / loop text of a contract is not found)"""
    if "d" not in _ROLES:
        import json
        import os
        p = os.path.join(os.path.dirname(os.path.dirname(os.path.abspath(__file__))), "baseline", "roles.json")
        try:
            _ROLES["d"] = json.load(open(p))
        except Exception:
            _ROLES["d"] = {}
    return _ROLES["d"]


def assigned_names(stmts):
    out = []

    def tgt(t):
        if isinstance(t, ast.Name):
            if t.id not in out:
                out.append(t.id)
        elif isinstance(t, (ast.Tuple, ast.List)):
            for x in t.elts:
                tgt(x)
    for st in stmts:
        for n in ast.walk(st):
            if isinstance(n, ast.Assign):
                for t in n.targets:
                    tgt(t)
            elif isinstance(n, (ast.AugAssign, ast.AnnAssign)):
                tgt(n.target)
            elif isinstance(n, (ast.For,)):
                tgt(n.target)
            elif isinstance(n, ast.With):
                for it in n.items:
                    if it.optional_vars is not None:
                        tgt(it.optional_vars)
            elif isinstance(n, ast.ExceptHandler) and n.name:
                if n.name not in out:
                    out.append(n.name)
            elif isinstance(n, ast.NamedExpr):
                tgt(n.target)
    return out


class StmtMixin:
    def exec_block(self, stmts):
        for st in stmts:
            self.exec_stmt(st)

    def exec_stmt(self, st):
        m = getattr(self, "s_" + type(st).__name__, None)
        if m is None:
            raise Unsupported("statement %s" % type(st).__name__)
        return m(st)

    # ------------------------------------------------------------------ simple statements
    def s_Pass(self, st):
        pass

    def s_Expr(self, st):
        if isinstance(st.value, ast.Constant):
            return
        if isinstance(st.value, (ast.Yield, ast.YieldFrom)):
            return self.do_yield(st.value)
        self.eval(st.value)

    def s_Return(self, st):
        raise ReturnEx(self.eval(st.value) if st.value is not None else VNone)

    def s_Break(self, st):
        raise BreakEx()

    def s_Continue(self, st):
        raise ContinueEx()

    def s_Global(self, st):
        raise Unsupported("global statement")

    def s_Assert(self, st):
        if not self.cond(st.test):
            self.raise_("AssertionError", self.anchor(st))

    def s_Import(self, st):
        for a in st.names:
            nm = a.asname or a.name.split(".")[0]
            dotted = a.name if a.asname else a.name.split(".")[0]
            if dotted in self.index.modules:
                self.frame.locals[nm] = self.st_register_cached(("module", dotted), lambda d=dotted: ModuleObj(d, True))
            else:
                self.frame.locals[nm] = self.extern_value(dotted)

    def s_ImportFrom(self, st):
        mod = self.index._abs_import(self.frame.module, st)
        for a in st.names:
            nm = a.asname or a.name
            if mod in self.index.modules:
                v = self.lookup_global_in(mod, a.name)
                if v is None:
                    raise Unsupported("import %s from %s" % (a.name, mod))
                self.frame.locals[nm] = v
            else:
                self.frame.locals[nm] = self.extern_value("%s.%s" % (mod, a.name))

    def lookup_global_in(self, dotted, name):
        m = self.index.modules[dotted]
        v = self.lookup_global(m, name)
        if v is None:
            sub = "%s.%s" % (dotted, name)
            if sub in self.index.modules:
                return self.st_register_cached(("module", sub), lambda: ModuleObj(sub, True))
        return v

    def s_FunctionDef(self, st):
        fr = self.frame
        qual = "%s.<locals>.%s" % (fr.fi.qualname, st.name)
        fi = fr.fi.module.functions.get(qual)
        if fi is None:
            raise Unsupported("nested function %s not indexed" % qual)
        fr.locals[st.name] = self.st.register(FuncObj(fi, fr))

    def s_ClassDef(self, st):
        fr = self.frame
        qual = "%s.<locals>.%s" % (fr.fi.qualname, st.name)
        ci = fr.fi.module.classes.get(qual)
        if ci is None:
            raise Unsupported("local class %s not indexed" % qual)
        rid = TYPEBASE + ci.cid
        self.st.registry[rid] = ClassObj(ci.cid, ci, fr, ci.name)
        fr.locals[st.name] = VRef(rid)

    def s_Delete(self, st):
        for t in st.targets:
            if isinstance(t, ast.Subscript):
                base = self.eval(t.value)
                idx = self.eval(t.slice)
                self.delitem(base, idx, t)
            elif isinstance(t, ast.Name):
                self.frame.locals.pop(t.id, None)
            else:
                raise Unsupported("del target")

    def delitem(self, base, idx, node):
        tb = self.tag(base, "delitem")
        if tb != "ref":
            self.raise_("TypeError", self.anchor(node))
        cid = self.class_of(base, "delitem-class")
        if self.is_host_class(cid):
            self.host_write_violation(node, "del item of host object")
            return
        nm = self.table.names[cid]
        r = Val.r(base)
        if nm in ("dict", "OrderedDict"):
            k = z3.simplify(idx)
            if not self.ctx.branch(self.dhas(r, k), "del-has-key"):
                self.raise_("KeyError", self.anchor(node))
            self.check_owned(base, node, "del")
            if nm == "OrderedDict":
                self.od_remove_at(base, self.od_find(base, k))
            self.dict_del(r, k)
            return
        if nm == "list":
            ti = self.tag(idx, "del-idx")
            n = self.llen(r)
            i = self.norm_index(self.num(idx, ti), n)
            if not self.ctx.branch(z3.And(i >= 0, i < n), "del-index-ok"):
                self.raise_("IndexError", self.anchor(node))
            self.check_owned(base, node, "del")
            j = z3.Int("j!del")
            arr = z3.Lambda([j], z3.If(j < i, z3.Select(self.lel(r), j), z3.Select(self.lel(r), j + 1)))
            self.st.lel = z3.Store(self.st.lel, r, arr)
            self.st.llen = z3.Store(self.st.llen, r, n - 1)
            self.st.writes.append(("list", r, None))
            return
        ci = self.table.info.get(cid)
        if ci is not None:
            mem = self.index.lookup_member(ci, "__delitem__")
            if mem:
                self.call_function(mem[1], None, [base, idx], {}, node)
                return
        raise Unsupported("del on %s" % nm)

    # ------------------------------------------------------------------ assignment
    def s_Assign(self, st):
        v = self.eval(st.value)
        for t in st.targets:
            self.assign_target(t, v, st)

    def s_AnnAssign(self, st):
        if st.value is None:
            return
        self.assign_target(st.target, self.eval(st.value), st)

    def assign_target(self, t, v, node=None):
        if isinstance(t, ast.Name):
            self.assign_name(t.id, v)
        elif isinstance(t, (ast.Tuple, ast.List)):
            items = self.unpack(v, len(t.elts), node or t)
            for sub, x in zip(t.elts, items):
                self.assign_target(sub, x, node)
        elif isinstance(t, ast.Attribute):
            obj = self.eval(t.value)
            self.setattr_(obj, t.attr, v, t)
        elif isinstance(t, ast.Subscript):
            base = self.eval(t.value)
            idx = self.eval(t.slice)
            self.setitem(base, idx, v, t)
        else:
            raise Unsupported("assignment target %s" % type(t).__name__)

    def assign_name(self, name, v):
        # closures: nonlocal writes are not used in the repo; assignment always binds in the current frame
        self.frame.locals[name] = v
        mu = self.frame.__dict__.get("maybe_unbound")
        if mu:
            mu.discard(name)

    def unpack(self, v, n, node):
        tv = self.tag(v, "unpack")
        if tv != "ref":
            self.raise_("TypeError", self.anchor(node, "unpack"))
        try:
            cid = self.class_of(v, "unpack-class")
        except Unsupported:
            cid = None          # a value of unknown class: some iterable
        if cid is None or self.is_host_class(cid) or \
                self.table.names.get(cid) in ("dict", "OrderedDict", "set", "frozenset", "bytes", "deque"):
            if cid is None or self.is_host_class(cid):
                self.host_op("iter", v, node, extra="unpack")
            # a host iterable: iterating runs host code (may raise); it yields exactly n items or the unpack fails
            if not self.ctx.branch(z3.Bool("host_unpack_ok!%d" % self.ctx.pos), "host iterable has %d items" % n):
                self.raise_("ValueError", self.anchor(node, "unpack"))
            out = []
            for i in range(n):
                e = self.ctx.fresh("unpacked", Val)
                self.assume_shape(e, ANY_SORT)
                out.append(e)
            return out
        nm = self.table.names[cid]
        if nm in ("function", "method", "type", "module", "object", "Lock", "Event", "Thread", "Future"):
            self.raise_("TypeError", self.anchor(node, "unpack"))        # not iterable
        if nm not in ("list", "tuple"):
            raise Unsupported("unpack of %s" % nm)
        r = Val.r(v)
        if not self.ctx.branch(self.llen(r) == n, "unpack-len"):
            self.raise_("ValueError", self.anchor(node, "unpack"))
        return [self.list_get(r, z3.IntVal(i)) for i in range(n)]

    def setattr_(self, obj, attr, v, node):
        to = self.tag(obj, "setattr")
        if to != "ref":
            self.raise_("AttributeError", self.anchor(node))
        fr = self.frame
        name = mangle(attr, fr.lexical_class.name if fr.lexical_class is not None else None)
        ob = self.pyobj(obj)
        if ob is not None:
            if isinstance(ob, ClassObj):
                self.st.globals_store[("cls:%d" % ob.cid, name)] = v
                self.st.writes.append(("global", None, "cls:%d.%s" % (ob.cid, name)))
                return
            raise Unsupported("attribute store on %s" % type(ob).__name__)
        cid = self.class_of(obj, "setattr-class")
        if self.is_host_class(cid) or self.table.names.get(cid) in ("frame", "code"):
            self.host_write_violation(node, "attribute store on host object")
            return
        ci = self.table.info.get(cid)
        if ci is not None:
            mem = self.index.lookup_member(ci, attr)
            if mem and mem[0] == "property":
                setter = mem[1].get("set")
                if setter is None:
                    self.raise_("AttributeError", self.anchor(node))
                self.call_function(setter, None, [obj, v], {}, node)
                return
            sa = self.index.lookup_member(ci, "__setattr__")
            if sa and sa[0] == "method" and not getattr(self, "_in_setattr", False):
                # ConfigService.__setattr__ only delegates to object.__setattr__
                pass
        self.st.set_field(Val.r(obj), name, v)

    def setitem(self, base, idx, v, node):
        tb = self.tag(base, "setitem")
        if tb != "ref":
            self.raise_("TypeError", self.anchor(node))
        cid = self.class_of(base, "setitem-class")
        if self.is_host_class(cid):
            self.host_write_violation(node, "item store on host object")
            return
        nm = self.table.names[cid]
        r = Val.r(base)
        if nm in ("dict", "OrderedDict"):
            self.check_owned(base, node, "setitem")
            k = z3.simplify(idx)
            if nm == "OrderedDict":
                if self.ctx.branch(self.dhas(r, k), "od-set-existing"):
                    self.st.dval = z3.Store(self.st.dval, r, z3.Store(z3.Select(self.st.dval, r), k, v))
                    self.st.writes.append(("dict", r, None))
                    return
                self.list_append(Val.r(self.od_keys(base)), k)
            self.dict_set(r, k, v)
            return
        if nm == "list":
            ti = self.tag(idx, "setitem-idx")
            n = self.llen(r)
            i = self.norm_index(self.num(idx, ti), n)
            if not self.ctx.branch(z3.And(i >= 0, i < n), "setitem-index-ok"):
                self.raise_("IndexError", self.anchor(node))
            self.check_owned(base, node, "setitem")
            self.st.lel = z3.Store(self.st.lel, r, z3.Store(self.lel(r), i, v))
            self.st.writes.append(("list", r, None))
            return
        ci = self.table.info.get(cid)
        if ci is not None:
            mem = self.index.lookup_member(ci, "__setitem__")
            if mem:
                self.call_function(mem[1], None, [base, idx, v], {}, node)
                return
        raise Unsupported("item store on %s" % nm)

    def check_owned(self, v, node, what):
        """Ownership: containers owned by the host program (marked in ghost 'host_owned') must not be written."""
        owned = self.st.ghost.get("host_owned")
        if not owned:
            return
        conds = [Val.r(v) == Val.r(h) for h in owned]
        self.ctx.oblige(self.obl_name("FRAME", self.anchor(node, "host-write")), "FRAME",
                        z3.Not(z3.Or(*conds)), detail="%s on a container owned by the host program" % what)

    def host_write_violation(self, node, what):
        self.ctx.oblige(self.obl_name("FRAME", self.anchor(node, "host-write")), "FRAME", z3.BoolVal(False), detail=what)

    def s_AugAssign(self, st):
        t = st.target
        if isinstance(t, ast.Name):
            cur = self.lookup_name(t.id, t)
            rhs = self.eval(st.value)
            if isinstance(st.op, ast.Add) and self.tag(cur, "aug") == "ref":
                cid = self.class_of(cur, "aug-class")
                if cid is not None and self.table.names.get(cid) == "list":
                    self.list_iadd(cur, rhs, st)
                    return
            self.assign_name(t.id, self.binop(st.op, cur, rhs, st))
        elif isinstance(t, ast.Attribute):
            obj = self.eval(t.value)
            cur = self.getattr_(obj, t.attr, t)
            rhs = self.eval(st.value)
            if isinstance(st.op, ast.Add) and self.tag(cur, "aug") == "ref":
                cid = self.class_of(cur, "aug-class")
                if cid is not None and self.table.names.get(cid) == "list":
                    self.list_iadd(cur, rhs, st)
                    return
            self.setattr_(obj, t.attr, self.binop(st.op, cur, rhs, st), t)
        elif isinstance(t, ast.Subscript):
            base = self.eval(t.value)
            idx = self.eval(t.slice)
            cur = self.getitem(base, idx, t)
            rhs = self.eval(st.value)
            self.setitem(base, idx, self.binop(st.op, cur, rhs, st), t)
        else:
            raise Unsupported("augassign target")

    def list_iadd(self, lst, rhs, node):
        tr = self.tag(rhs, "iadd-rhs")
        if tr != "ref":
            self.raise_("TypeError", self.anchor(node))
        cid = self.class_of(rhs, "iadd-rhs-class")
        if self.is_host_class(cid):
            self.host_op("iter", rhs, node)
            raise Unsupported("list += host iterable")
        if self.table.names.get(cid) not in ("list", "tuple"):
            raise Unsupported("list += %s" % self.table.names.get(cid))
        self.check_owned(lst, node, "+=")
        self.list_extend(Val.r(lst), rhs)

    # ------------------------------------------------------------------ if / while / for
    def s_If(self, st):
        if self.cond(st.test):
            self.exec_block(st.body)
        else:
            self.exec_block(st.orelse)

    def loop_spec(self, node):
        if self.top is None:
            return None
        fr = self.frame
        key = fr.fi.key if fr.fi is not None else None
        anchors = self.anchors_for(fr.fi.node)
        lab = anchors.get(id(node))
        # loops may also be named by what they iterate over (robust against loops added before them)
        alt = ("iter:" + ast.unparse(node.iter)) if isinstance(node, ast.For) else ("while:" + ast.unparse(node.test))
        cands = [lab, alt]
        # the loop text a contract names may contain locals that have since been renamed: on the unchanged tree the loop
        # with this ordinal had the text recorded in baseline/roles.json
        ro = _roles().get(key) or {}
        old_text = ro.get("loops", {}).get(lab)
        if old_text and old_text != alt:
            # ... accepted only if the loop's text is the recorded one up to the renaming of locals
            from .front import local_binding_order
            import re as _re

            def norm(text, names):
                for i_, nm_ in sorted(enumerate(names), key=lambda t: -len(t[1])):
                    text = _re.sub(r"(?<![A-Za-z0-9_.])%s(?![A-Za-z0-9_])" % _re.escape(nm_), "\x00%d\x00" % i_, text)
                return text
            now_names = local_binding_order(fr.fi.node)
            if len(now_names) == len(ro.get("locals", [])) and norm(alt, now_names) == norm(old_text, ro["locals"]):
                cands.append(old_text)
        for k in cands:
            kk = (key, k) if (key, k) in self.top.loop_specs else (k if (key == self.top.key and k in self.top.loop_specs) else None)
            if kk is not None:
                self.matched_loop_specs.add(kk)
                return self.top.loop_specs[kk]
        # a loop of the function under contract that has been moved, unchanged, into a helper of the same class (the helper
        # is executed in place): the loop contract named by the loop's text still applies to it
        if key != self.top.key and fr.fi is not None and self.top is not None and alt in self.top.loop_specs and \
                alt not in self.matched_loop_specs and fr.fi.cls is not None and \
                self.top.key.split(":")[-1].split(".")[0] == fr.fi.cls.name:
            top_fi = self.index.function(self.top.file, self.top.qual)
            from .front import loop_keys
            if top_fi is not None and alt not in loop_keys(top_fi.node).values():
                self.matched_loop_specs.add(alt)
                return self.top.loop_specs[alt]
        return None

    def havoc_loop(self, body, extra_modifies=None):
        names = assigned_names(body)
        # containers created on this path that the loop body can reach through a variable it mentions: earlier
        # iterations may have written them, so a havoc for this loop must not keep their contents
        mentioned = {n.id for b in body for n in ast.walk(b) if isinstance(n, ast.Name)}
        touched = set()
        f = self.frame
        while f is not None:
            for nm, v in f.locals.items():
                if nm in mentioned:
                    try:
                        vs = z3.simplify(v)
                        if z3.is_app(vs) and vs.decl().name() == "VRef" and z3.is_int_value(vs.arg(0)):
                            touched.add(vs.arg(0).as_long())
                    except Exception:
                        pass
            f = f.parent
        for n in names:
            if n not in self.frame.locals:
                # not bound before the loop: in the first iteration a read before the assignment finds it unbound
                self.frame.__dict__.setdefault("maybe_unbound", set()).add(n)
            self.frame.locals[n] = self.ctx.fresh("hv_" + n, Val)
        self.st.ghost["_loop_touched"] = touched
        try:
            self.havoc_heap_for(body, extra_modifies)
        finally:
            self.st.ghost["_loop_touched"] = set()
        return names

    def havoc_heap_for(self, body, extra_modifies=None):
        """Havoc heap parts a loop body may modify (syntactic over-approximation)."""
        fields, lists, dicts = set(), False, False
        calls = False
        for st in body:
            for n in ast.walk(st):
                if isinstance(n, ast.Attribute) and isinstance(n.ctx, ast.Store):
                    cls = self.frame.lexical_class
                    fields.add(mangle(n.attr, cls.name if cls is not None else None))
                elif isinstance(n, ast.Subscript) and isinstance(n.ctx, (ast.Store, ast.Del)):
                    lists = dicts = True
                elif isinstance(n, ast.AugAssign):
                    lists = True
                elif isinstance(n, ast.Call):
                    calls = True
                    f = n.func
                    if isinstance(f, ast.Attribute) and f.attr in ("append", "extend", "pop", "insert", "remove",
                                                                   "clear", "popleft", "appendleft", "sort"):
                        lists = True
                    if isinstance(f, ast.Attribute) and f.attr in ("update", "pop", "popitem", "clear", "setdefault"):
                        dicts = True
        if extra_modifies == "none":
            return

        def own_fields():
            # fields the loop body itself assigns (also "final" ones, when the loop sits inside an __init__)
            for f in fields:
                self.st.fields[f] = self.ctx.fresh("hvF_" + f, ArrIV)
        if isinstance(extra_modifies, (list, tuple)):
            self.apply_havoc(extra_modifies)      # the loop contract states the frame explicitly
            if any(m[0] == "all" for m in extra_modifies):
                own_fields()
            return
        if calls and extra_modifies is None:
            # calls may modify anything their contracts allow: conservative
            self.havoc_all_heap()
            own_fields()
            return
        for f in fields:
            self.st.fields[f] = self.ctx.fresh("hvF_" + f, ArrIV)
        if lists:
            self.st.llen = self.ctx.fresh("hvLLen", self.st.llen.sort())
            self.st.lel = self.ctx.fresh("hvLEl", self.st.lel.sort())
        if dicts:
            self.st.dhas = self.ctx.fresh("hvDHas", self.st.dhas.sort())
            self.st.dval = self.ctx.fresh("hvDVal", self.st.dval.sort())
            self.st.dlen = self.ctx.fresh("hvDLen", self.st.dlen.sort())
        if extra_modifies:
            self.apply_havoc(extra_modifies)

    def havoc_all_heap(self):
        """Havoc every heap component except the type map, and except state registered as private to the
        function under verification (st.ghost['protected']: encapsulation assumption, listed in evidence)."""
        prot = self.st.ghost.get("protected") or {}
        # fields nobody rebinds after construction (front.Index.final_fields) survive any call
        pf = set(prot.get("fields", ())) | set(getattr(self.index, "final_fields", ()))
        old = (self.st.llen, self.st.lel, self.st.dhas, self.st.dval, self.st.dlen)
        for f in pf:
            self.st.field_arr(f)      # protected fields keep their arrays: materialise them in the current generation
        for f in list(self.st.fields):
            if f in pf:
                continue
            self.st.fields[f] = self.ctx.fresh("hvF_" + f, ArrIV)
        self.st.heap_gen += 1
        # (protected fields keep their current arrays; unseen unprotected fields get generation-fresh names)
        self.st.ghost["_havoc_all"] = True
        self.st.llen = self.ctx.fresh("hvLLen", self.st.llen.sort())
        self.st.lel = self.ctx.fresh("hvLEl", self.st.lel.sort())
        self.st.dhas = self.ctx.fresh("hvDHas", self.st.dhas.sort())
        self.st.dval = self.ctx.fresh("hvDVal", self.st.dval.sort())
        self.st.dlen = self.ctx.fresh("hvDLen", self.st.dlen.sort())
        for v in prot.get("lists", ()):
            r = Val.r(v)
            self.st.llen = z3.Store(self.st.llen, r, z3.Select(old[0], r))
            self.st.lel = z3.Store(self.st.lel, r, z3.Select(old[1], r))
        for v in prot.get("dicts", ()):
            r = Val.r(v)
            self.st.dhas = z3.Store(self.st.dhas, r, z3.Select(old[2], r))
            self.st.dval = z3.Store(self.st.dval, r, z3.Select(old[3], r))
            self.st.dlen = z3.Store(self.st.dlen, r, z3.Select(old[4], r))
        # tuples created on this path are immutable; lists / dicts created on this path that were never handed to
        # other code nor stored anywhere are unreachable for the code whose effect is being havocked
        tup = self.table.id("tuple")
        seqs = {self.table.id(n) for n in ("list", "set", "frozenset", "deque")}
        dcts = {self.table.id(n) for n in ("dict", "OrderedDict")}
        loop_touched = self.st.ghost.get("_loop_touched") or ()
        for rid, cid in self.st.alloc_class.items():
            private = rid not in self.st.escaped and rid not in loop_touched
            r = z3.IntVal(rid)
            if cid == tup or (private and cid in seqs):
                self.st.llen = z3.Store(self.st.llen, r, z3.Select(old[0], r))
                self.st.lel = z3.Store(self.st.lel, r, z3.Select(old[1], r))
            elif private and cid in dcts:
                self.st.dhas = z3.Store(self.st.dhas, r, z3.Select(old[2], r))
                self.st.dval = z3.Store(self.st.dval, r, z3.Select(old[3], r))
                self.st.dlen = z3.Store(self.st.dlen, r, z3.Select(old[4], r))
        if hasattr(self, "reassume_invariants"):
            self.reassume_invariants()

    def _oblige_body(self, label, goals):
        if isinstance(goals, (list, tuple)):
            for sub, g in goals:
                self.ctx.oblige(self.obl_name("POST", "%s/body/%s" % (label, sub)), "POST", g)
        else:
            self.ctx.oblige(self.obl_name("POST", label + "/body"), "POST", goals)

    def s_While(self, st):
        if st.orelse:
            raise Unsupported("while-else")
        spec = self.loop_spec(st)
        label = self.anchor(st)
        pre = self.st.snapshot()
        pre_locals = dict(self.frame.locals)
        assigned = assigned_names(st.body)
        L = LoopCtx(self, self.frame, None, None, pre, assigned, st)
        L.pre_locals = pre_locals
        if spec is not None and spec.invariant is not None:
            self.ctx.oblige(self.obl_name("INV", label + "/init"), "INV", spec.invariant(L))
        self.havoc_loop(st.body, spec.modifies(L) if (spec and spec.modifies) else (spec.modifies_kind if spec else None))
        if spec is not None and spec.invariant is not None:
            self.ctx.assume(spec.invariant(L))
        variant0 = spec.variant(L) if (spec and spec.variant) else None
        if self.cond(st.test):
            L.iter_pre = self.st.snapshot()
            L.iter_pre_locals = dict(self.frame.locals)
            L.iter_log_start = len(self.st.log)
            try:
                self.exec_block(st.body)
            except ContinueEx:
                pass
            except BreakEx:
                return
            if spec is not None and spec.body_ensures is not None:
                self._oblige_body(label, spec.body_ensures(L))
            if spec is not None and spec.invariant is not None:
                self.ctx.oblige(self.obl_name("INV", label + "/preserved"), "INV", spec.invariant(L))
            if variant0 is not None:
                v1 = spec.variant(L)
                self.ctx.oblige(self.obl_name("TERM", label + "/variant"), "TERM", _lex_less(v1, variant0))
            raise PathAbort("loop iteration verified")
        # exit: invariant and not guard hold

    def iter_sequence(self, it, node):
        """Unfold an iterable value into a Seq (lists, tuples, dict views, enumerate)."""
        ti = self.tag(it, "iter")
        if ti == "str":
            s = Val.s(it)
            return Seq("list", z3.Length(s), lambda i: Val.VStr(z3.SubString(s, i, 1)))
        if ti != "ref":
            self.raise_("TypeError", self.anchor(node, "iter"))
        view = self.st.ghost.get("views", {}).get(self.concrete_ref(it))
        if view is not None:
            return view
        cands = self.class_candidates(it)
        seqs = {self.table.id(n) for n in ("list", "tuple", "set", "frozenset", "deque")}
        if cands is not None and len(cands) > 1 and set(cands) <= seqs:
            cid = cands[0]          # all builtin sequences iterate alike: no case split
        else:
            cid = self.class_of(it, "iter-class")
        if self.is_host_class(cid):
            self.host_op("iter", it, node)
            raise Unsupported("iteration over a host iterable (%s)" % (ast.unparse(node)[:60] if node is not None else "?"))
        nm = self.table.names[cid]
        r = Val.r(it)
        if nm in ("list", "tuple", "deque", "set", "frozenset"):
            arr = self.lel(r)
            esort = self.st.ghost.get("elem_sorts", {}).get(tkey(it))
            if esort is not None:
                interp = self

                def typed(i):
                    e = z3.Select(arr, i)
                    interp.assume_shape(e, esort)
                    return e
                return Seq("list", self.llen(r), typed, it)
            return Seq("list", self.llen(r), lambda i: z3.Select(arr, i), it)
        if nm == "OrderedDict":
            kl = self.od_keys(it)
            karr = self.lel(Val.r(kl))
            return Seq("list", self.llen(Val.r(kl)), lambda i: z3.Select(karr, i), kl)
        if nm == "dict":
            return self.dict_seq(r, "keys")
        ci = self.table.info.get(cid)
        if ci is not None:
            mem = self.index.lookup_member(ci, "__iter__")
            if mem:
                res = self.call_function(mem[1], None, [it], {}, node)
                return self.iter_sequence(res, node)
        raise Unsupported("iteration over %s" % nm)

    def dict_seq(self, r, what):
        """Iteration over a dict: an enumeration keys[0..n) of its domain (order unspecified)."""
        keys = self.ctx.fresh("dkeys", ArrIV)
        has, val, n = z3.Select(self.st.dhas, r), z3.Select(self.st.dval, r), self.dlen(r)
        self.ctx.assume(n >= 0)
        interp = self

        hostdata = any(z3.simplify(Val.r(h)).eq(z3.simplify(r)) for h in
                       self.st.ghost.get("host_owned", []) + self.st.ghost.get("host_data_dicts", []))

        def element(i):
            k = z3.Select(keys, i)
            interp.ctx.assume(z3.Implies(z3.And(i >= 0, i < n), z3.Select(has, k)))
            # keys are primitives or host objects (agent objects are never used as dictionary keys)
            interp.ctx.assume(z3.Implies(Val.is_VRef(k), z3.And(Val.r(k) > 0, Val.r(k) < interp.st.next_id,
                              interp.host_or_builtin_class(z3.Select(interp.st.typeof, Val.r(k))))))
            if hostdata:
                interp.assume_shape(z3.Select(val, k), ANY_SORT)
            dvs_ = interp.st.ghost.get("dict_value_sorts", {})
            vs_ = dvs_.get(tkey(VRef(r))) or dvs_.get("r:" + tkey(r))
            if vs_ is not None and getattr(vs_, "kind", None) == "obj":
                # declared typing of the dictionary's values applies to the values met while iterating over it
                t_ = interp.table
                names_ = list(vs_.subclasses) if vs_.subclasses else [vs_.cls]
                ids_ = [t_.ids[n_] if n_ in t_.ids else interp.index.find_class(n_).cid for n_ in names_]
                vv_ = z3.Select(val, k)
                shape_ = z3.And(Val.is_VRef(vv_), Val.r(vv_) > 0, Val.r(vv_) < interp.st.next_id,
                                z3.Or(*[z3.Select(interp.st.typeof, Val.r(vv_)) == i_ for i_ in ids_]))
                interp.ctx.assume(z3.Implies(z3.And(i >= 0, i < n), z3.Or(Val.is_VNone(vv_), shape_) if vs_.nullable else shape_))
            if what == "keys":
                return k
            if what == "values":
                return z3.Select(val, k)
            return interp.st.new_list([k, z3.Select(val, k)], "tuple")
        sq = Seq("dict", n, element, r)
        sq.keys = keys

        def pos():
            """position of a key in the enumeration (the enumeration covers the whole domain); added on demand"""
            if getattr(sq, "_pos", None) is None:
                sq._pos = interp.ctx.fresh("dpos", z3.ArraySort(Val, I))
                k = z3.Const("k!dpos", Val)
                interp.ctx.assume(z3.ForAll([k], z3.Implies(z3.Select(has, k), z3.And(
                    z3.Select(sq._pos, k) >= 0, z3.Select(sq._pos, k) < n, z3.Select(keys, z3.Select(sq._pos, k)) == k))))
                i = z3.Int("i!dpos")          # ... and lists every key once
                interp.ctx.assume(z3.ForAll([i], z3.Implies(z3.And(i >= 0, i < n), z3.Select(sq._pos, z3.Select(keys, i)) == i)))
            return sq._pos
        sq.pos = pos
        return sq

    def s_For(self, st):
        if st.orelse:
            raise Unsupported("for-else")
        it = self.eval(st.iter)
        seq = self.iter_sequence(it, st.iter)
        spec = self.loop_spec(st)
        label = self.anchor(st)
        n = self.ctx.value_of(seq.length)
        if n is not None and n <= 6 and (spec is None or spec.invariant is None):
            for k in range(n):
                self.assign_target(st.target, seq.element(z3.IntVal(k)), st)
                try:
                    self.exec_block(st.body)
                except ContinueEx:
                    continue
                except BreakEx:
                    break
            return
        pre = self.st.snapshot()
        pre_locals = dict(self.frame.locals)
        assigned = [a for a in assigned_names(st.body)]
        idx0 = z3.IntVal(0)
        L = LoopCtx(self, self.frame, idx0, seq, pre, assigned, st)
        L.pre_locals = pre_locals
        L.region_lo = self.st.next_id
        if spec is not None and spec.invariant is not None:
            self.ctx.oblige(self.obl_name("INV", label + "/init"), "INV", spec.invariant(L))
            self.st.reserve_region()
        self.havoc_loop(st.body, spec.modifies(L) if (spec and spec.modifies) else (spec.modifies_kind if spec else None))
        for nm in assigned_names([ast.Assign(targets=[st.target], value=ast.Constant(value=None))]):
            self.frame.locals[nm] = self.ctx.fresh("hv_" + nm, Val)
        idx = self.ctx.fresh("loop_i", I)
        L.index = idx
        self.ctx.assume(z3.And(idx >= 0, idx <= seq.length))
        if spec is not None and spec.invariant is not None:
            self.ctx.assume(spec.invariant(L))
        ys = self.st.ghost.get("yields")
        yields_here = bool(ys) and any(isinstance(n, (ast.Yield, ast.YieldFrom)) for b in st.body for n in ast.walk(b))
        L.iter_yields_start = len(ys[-1]) if ys else 0
        if self.ctx.branch(idx < seq.length, "for-more"):
            self.assign_target(st.target, seq.element(idx), st)
            self.st.ghost["loop_index"] = idx
            L.iter_pre = self.st.snapshot()
            L.iter_pre_locals = dict(self.frame.locals)
            L.iter_log_start = len(self.st.log)
            try:
                self.exec_block(st.body)
            except ContinueEx:
                pass
            except BreakEx:
                if spec is not None and spec.body_no_raise:
                    # a per-element loop contract: every element has to be visited
                    self.ctx.oblige(self.obl_name("SIG", "%s/body/break" % label), "SIG", z3.BoolVal(False),
                                    detail="a break ends the loop early: the remaining elements are skipped")
                    raise PathAbort("loop body broke out (reported)")
                return
            except PyRaise as pr:
                if spec is not None and spec.body_no_raise:
                    self.ctx.oblige(self.obl_name("SIG", "%s/body/%s" % (label, pr.origin)), "SIG", z3.BoolVal(False),
                                    detail="an exception raised at %s ends the loop early: the remaining "
                                           "elements are skipped" % pr.origin)
                    raise PathAbort("loop body raised (reported)")
                raise
            L.index = idx + 1
            if spec is not None and spec.invariant is not None:
                self.ctx.oblige(self.obl_name("INV", label + "/preserved"), "INV", spec.invariant(L))
            if spec is not None and spec.body_ensures is not None:
                L.index = idx
                self._oblige_body(label, spec.body_ensures(L))
            raise PathAbort("loop iteration verified")
        # loop finished: idx == length, invariant holds
        if yields_here:
            # a generator whose loop was verified for an arbitrary iteration: what it yielded overall is abstract
            self.st.ghost.setdefault("yields_abstract", set()).add(id(ys[-1]))

    # ------------------------------------------------------------------ raise / try / with
    def s_Raise(self, st):
        if st.exc is None:
            if not self.current_exc:
                self.raise_("RuntimeError", self.anchor(st))
            raise PyRaise(self.current_exc[-1].exc, self.current_exc[-1].origin)
        v = self.eval(st.exc)
        ob = self.pyobj(v)
        if isinstance(ob, ClassObj):
            v = self.instantiate(ob, [], {}, st)
        raise PyRaise(v, self.anchor(st))

    def handler_matches(self, h, exc):
        if h.type is None:
            return z3.BoolVal(True)
        types = h.type.elts if isinstance(h.type, ast.Tuple) else [h.type]
        conds = []
        for t in types:
            tv = self.eval(t)
            ob = self.pyobj(tv)
            if not isinstance(ob, ClassObj):
                raise Unsupported("except clause with non-class")
            conds.append(self.exc_isa(exc, ob.cid))
        return z3.Or(*conds) if len(conds) > 1 else conds[0]

    def s_Try(self, st):
        try:
            try:
                self.exec_block(st.body)
            except PyRaise as ex:
                handled = False
                for h in st.handlers:
                    if self.ctx.branch(self.handler_matches(h, ex.exc), "except-match"):
                        handled = True
                        if h.name:
                            self.assign_name(h.name, ex.exc)
                        self.current_exc.append(ex)
                        try:
                            self.exec_block(h.body)
                        finally:
                            self.current_exc.pop()
                        break
                if not handled:
                    raise
            else:
                self.exec_block(st.orelse)
        except (PyRaise, ReturnEx, BreakEx, ContinueEx):
            if st.finalbody:
                self.exec_block(st.finalbody)
            raise
        else:
            if st.finalbody:
                self.exec_block(st.finalbody)

    def s_With(self, st):
        if len(st.items) != 1:
            # nest
            inner = ast.With(items=st.items[1:], body=st.body)
            ast.copy_location(inner, st)
            outer = ast.With(items=st.items[:1], body=[inner])
            ast.copy_location(outer, st)
            raise Unsupported("multi-item with")
        item = st.items[0]
        mgr = self.eval(item.context_expr)
        enter = self.getattr_(mgr, "__enter__", item.context_expr)
        val = self.call_value(enter, [], {}, item.context_expr, anchor=self.anchor(st, "__enter__"))
        if item.optional_vars is not None:
            self.assign_target(item.optional_vars, val, st)
        try:
            self.exec_block(st.body)
        except PyRaise as ex:
            exitf = self.getattr_(mgr, "__exit__", item.context_expr)
            cls_term = VRef(z3.simplify(z3.IntVal(TYPEBASE) + self.exc_class(ex.exc)))
            r = self.call_value(exitf, [cls_term, ex.exc, VNone], {}, item.context_expr,
                                anchor=self.anchor(st, "__exit__"))
            if self.ctx.branch(self.truth(r, st), "with-suppress"):
                return
            raise
        except (ReturnEx, BreakEx, ContinueEx):
            exitf = self.getattr_(mgr, "__exit__", item.context_expr)
            self.call_value(exitf, [VNone, VNone, VNone], {}, item.context_expr, anchor=self.anchor(st, "__exit__"))
            raise
        exitf = self.getattr_(mgr, "__exit__", item.context_expr)
        self.call_value(exitf, [VNone, VNone, VNone], {}, item.context_expr, anchor=self.anchor(st, "__exit__"))

    def do_yield(self, node):
        ys = self.st.ghost.get("yields")
        if ys is None:
            raise Unsupported("yield outside generator collection")
        v = self.eval(node.value) if node.value is not None else VNone
        ys[-1].append(v)
        return VNone

    def e_Yield(self, node):
        return self.do_yield(node)


def _lex_less(a, b):
    """Lexicographic a < b for tuples of Int terms, all components bounded below by 0."""
    if not isinstance(a, (tuple, list)):
        return z3.And(a < b, b >= 0) if False else z3.And(a >= 0, a < b)
    conds = []
    for k in range(len(a)):
        eqs = [a[j] == b[j] for j in range(k)]
        conds.append(z3.And(*(eqs + [a[k] < b[k], a[k] >= 0])))
    return z3.Or(*conds)
