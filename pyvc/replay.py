"""Replay of failed obligations against the real code.

A driver (replay/*.py) builds the failing scenario natively on /repo's current working tree and exits 1
when the violated clause is observed on the real code.  Where no driver exists (or it does not reproduce)
the violation is still reported, marked no-failing-input-found, with the solver's model attached."""
import importlib.util
import json
import os
import re
import subprocess
import sys

ROOT = os.path.dirname(os.path.dirname(os.path.abspath(__file__)))
REPO_SRC = os.environ.get("PYVC_REPO_SRC", "/repo/src")


def _drivers():
    spec = importlib.util.spec_from_file_location("replay_index", os.path.join(ROOT, "replay", "index.py"))
    m = importlib.util.module_from_spec(spec)
    spec.loader.exec_module(m)
    return m.DRIVERS


def _drivers_props():
    spec = importlib.util.spec_from_file_location("replay_index", os.path.join(ROOT, "replay", "index.py"))
    m = importlib.util.module_from_spec(spec)
    spec.loader.exec_module(m)
    return getattr(m, "DRIVER_PROPS", {})


def run_driver(script, extra_env=None):
    env = dict(os.environ, PYTHONPATH=REPO_SRC)
    env.update(extra_env or {})
    p = subprocess.run(["/venv/bin/python", os.path.join(ROOT, "replay", script)], capture_output=True, text=True,
                       timeout=180, env=env, cwd=ROOT)
    return p.returncode, (p.stdout[-3000:] + p.stderr[-1500:])


def try_replay(name, key, failure, G):
    for pat, script in _drivers():
        if re.search(pat, name):
            try:
                rc, out = run_driver(script, {"PYVC_MODEL": (failure.get("model") or "")[:20000]})
            except Exception as e:
                return {"reproduced": None, "driver": script, "note": "driver error: %s" % e}
            return {"reproduced": True if rc == 1 else None, "driver": script, "driver_exit": rc, "output": out,
                    "note": "driver exit 1 = clause violated on the real code"}
    return {"reproduced": None, "note": "no replay driver for this obligation"}


def show_replay(path):
    d = json.load(open(path))
    print(json.dumps({k: d.get(k) for k in ("property", "obligation", "function", "detail")}, indent=1))
    print("solver model (excerpt):\n" + (d.get("model") or "")[:3000])
    rep = d.get("replay") or {}
    drv = rep.get("driver")
    if drv:
        rc, out = run_driver(drv)
        print(out)
        print("driver exit", rc)
        return 1 if rc == 1 else 0
    print("no driver: obligation failure only (no-failing-input-found)")
    return 1
