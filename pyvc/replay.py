"""Replay of counter-models against the real code (filled in per function kind; see DESIGN 4.5)."""
import json
import os
import subprocess
import sys

ROOT = os.path.dirname(os.path.dirname(os.path.abspath(__file__)))


def try_replay(name, key, failure, G):
    """Return {'reproduced': True|False|None, 'note': str, ...}.  None = no concrete input could be built."""
    return {"reproduced": None, "note": "no replay driver for this obligation kind"}


def show_replay(path):
    d = json.load(open(path))
    print(json.dumps({k: d[k] for k in ("property", "obligation", "function", "detail")}, indent=1))
    print("model:\n" + (d.get("model") or ""))
    rep = d.get("replay") or {}
    print("replay:", json.dumps(rep, indent=1)[:4000])
    script = rep.get("script")
    if script:
        r = subprocess.run(["/venv/bin/python", "-c", script], capture_output=True, text=True, timeout=120,
                           env=dict(os.environ, PYTHONPATH="/repo/src"))
        print(r.stdout[-3000:], r.stderr[-3000:])
        return 1 if r.returncode != 0 else 0
    return 1
