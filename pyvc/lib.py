"""Trusted models of builtins and of the standard / third-party library surface the repo touches.

Every entry here is an ASSUMPTION (trusted base): what the call returns, when it may raise and what
it may modify.  Entries record themselves in interp.used_trusted so the evidence lists those used.
"""
import ast
import z3
from .core import (tkey, Val, VNone, VTrue, VFalse, VInt, VStr, VBool, VRef, VFloat, I, B, S, R, ArrIV, ClassName, IsSub,
                   StrOf, ReprOf, IntOk, IntOf, FloatOk, FloatOf, Lower, Upper, Strip, Basename, Dirname, Unquote,
                   IdStr, TYPEBASE, Unsupported, FuncObj, BoundMethod, ClassObj, ModuleObj, ExternObj, BuiltinFn,
                   LogEntry)
from .interp_base import PyRaise
from .interp_stmt import Seq
from .contract import ANY as ANY_SORT, STR as P_STR

NOOP_PREFIXES = ("logging.", "deep.logging.", "logging.config.")



_CONTAINERS = {"str", "bytes", "dict", "list", "tuple", "set", "frozenset", "deque", "OrderedDict", "dict_keys",
               "dict_items", "dict_values"}
# abstract base class -> (built-in classes that are instances, protocol methods that make a repository class one)
ABC_MEMBERS = {
    "Iterable": (_CONTAINERS | {"generator"}, ["__iter__"]),
    "Iterator": ({"generator"}, ["__iter__", "__next__"]),
    "Generator": ({"generator"}, None),
    "Sized": (_CONTAINERS, ["__len__"]),
    "Container": (_CONTAINERS, ["__contains__"]),
    "Collection": (_CONTAINERS, ["__len__", "__iter__", "__contains__"]),
    "Mapping": ({"dict", "OrderedDict"}, None),
    "Set": ({"set", "frozenset", "dict_keys", "dict_items"}, None),
    "MutableSet": ({"set"}, None),
    "MutableSequence": ({"list", "deque"}, None),
}


class LibMixin:
    def call_builtin(self, name, args, kwargs, node, anchor):
        self.used_trusted.add(name)
        if not name.startswith(("list.", "dict.", "str.", "new.", "Lock.")) and name not in (
                "len", "isinstance", "type", "id", "hasattr", "getattr", "str", "bool", "int", "float", "callable"):
            self.st.mark_escaped(*args)
            self.st.mark_escaped(*kwargs.values())
        if name.startswith(NOOP_PREFIXES) or name in ("print",):
            # logging: arguments were evaluated by the caller; the call has no effect and never raises
            # (the logging package swallows formatting errors: trusted)
            self.st.log.append(LogEntry(name, args, kwargs, site=anchor))
            return VNone
        h = getattr(self, "b_" + name.replace(".", "_"), None)
        if h is None:
            ext = self.contracts.get("extern:" + name)
            if ext is not None:
                return self.apply_extern_contract(ext, name, args, kwargs, node, anchor)
            raise Unsupported("no model for builtin/extern %s" % name)
        return h(args, kwargs, node, anchor)

    # ------------------------------------------------------------------ type / identity
    def b_type(self, args, kwargs, node, anchor):
        r = z3.simplify(z3.IntVal(TYPEBASE) + self.st.type_of_val(args[0]))
        self.st.ghost.setdefault("type_terms", []).append(r)
        return VRef(r)

    def b_id(self, args, kwargs, node, anchor):
        v = args[0]
        res = self.ctx.fresh("id", I)
        # identity: refs map to themselves; primitives to an uninterpreted function of the value
        # (models interning: equal primitives share identity)
        self.st.ghost.setdefault("id_terms", {})[str(res)] = v
        self.ctx.assume(IdStr(v) == z3.IntToStr(res))
        self.ctx.assume(res >= 0)
        return Val.VInt(res)

    def b_isinstance(self, args, kwargs, node, anchor):
        v, k = args
        kob = self.pyobj(k)
        if kob is None:
            # tuple of classes
            tk = self.tag(k, "isinstance-cls")
            if tk == "ref" and self.class_of(k, "isinstance-tuple") == self.table.id("tuple"):
                n = self.ctx.value_of(self.llen(Val.r(k)))
                if n is not None:
                    cs = [Val.b(self.b_isinstance([v, self.list_get(Val.r(k), z3.IntVal(i))], {}, node, anchor))
                          for i in range(n)]
                    return Val.VBool(z3.Or(*cs) if cs else z3.BoolVal(False))
            raise Unsupported("isinstance with non-concrete class")
        if isinstance(kob, ExternObj):
            nm = kob.dotted.split(".")[-1]
            if nm in self.table.ids:
                kcid = self.table.id(nm)
            elif nm in ABC_MEMBERS and kob.dotted.rsplit(".", 1)[0] in ("collections.abc", "typing", "collections"):
                return Val.VBool(self.isinstance_abc(v, nm))
            else:
                raise Unsupported("isinstance against extern %s" % kob.dotted)
        elif isinstance(kob, ClassObj):
            kcid = kob.cid
        elif isinstance(kob, BuiltinFn) and kob.name in self.table.ids:
            kcid = self.table.id(kob.name)        # str / int / float / bool / dict ... used as classes
        else:
            raise Unsupported("isinstance against %s" % type(kob).__name__)
        return Val.VBool(self.isinstance_term(v, kcid))

    def isinstance_abc(self, v, nm):
        """isinstance against an abstract base class of collections.abc that is not part of the class table: decided
        by the table ABC_MEMBERS for the built-in classes, by the protocol methods for classes of the repository, an
        uninterpreted (stable) predicate of the class for host classes."""
        members, methods = ABC_MEMBERS[nm]
        tg = self.tag(v, "isinstance-abc")
        if tg != "ref":
            return z3.BoolVal(tg in members)
        cid = self.class_of(v, "isinstance-abc-class")
        if self.is_host_class(cid):
            return z3.Function("IsAbc_" + nm, I, B)(z3.Select(self.st.typeof, Val.r(v)))
        t = self.table
        anc = set(t.names[a] for a in t.ancestors(cid))
        if anc & members:
            return z3.BoolVal(True)
        if nm in ("Mapping", "MutableMapping", "Iterable", "Sized", "Container", "Collection") and "MutableMapping" in anc:
            return z3.BoolVal(True)
        ci = t.info.get(cid)
        if ci is not None and methods:
            return z3.BoolVal(all(self.index.lookup_member(ci, m) is not None for m in methods))
        return z3.BoolVal(False)

    def isinstance_term(self, v, kcid):
        t = self.table
        kname = t.names[kcid]
        prim = {"NoneType": Val.is_VNone(v), "bool": Val.is_VBool(v),
                "int": z3.Or(Val.is_VInt(v), Val.is_VBool(v)), "str": Val.is_VStr(v), "float": Val.is_VFloat(v)}
        if kname in prim:
            return prim[kname]
        if kname == "object":
            return z3.BoolVal(True)
        tg = self.tag(v, "isinstance-val")
        if tg != "ref":
            if kname == "Sequence" and tg == "str":
                return z3.BoolVal(True)
            return z3.BoolVal(False)
        cid = self.class_of(v, "isinstance-class")
        if self.is_host_class(cid):
            # unknown host class: may or may not subclass k (uninterpreted, stable)
            c = z3.Select(self.st.typeof, Val.r(v))
            if kname == "bytes":
                return c == z3.IntVal(kcid)      # bytes: exact type only (subclasses of bytes are not modelled)
            return IsSub(c, z3.IntVal(kcid))
        if kname == "Sequence":
            return z3.BoolVal(t.names[cid] in ("list", "tuple", "deque") or t.issub(cid, kcid))
        return z3.BoolVal(t.issub(cid, kcid))

    def b_callable(self, args, kwargs, node, anchor):
        v = args[0]
        if self.tag(v, "callable") != "ref":
            return VFalse
        ob = self.pyobj(v)
        if ob is not None:
            return VBool(isinstance(ob, (FuncObj, BoundMethod, ClassObj, BuiltinFn, ExternObj)))
        cid = self.class_of(v, "callable-class")
        if self.is_host_class(cid):
            return Val.VBool(self.hostfn("callable", "raises")(v))
        ci = self.table.info.get(cid)
        if ci is not None:
            return VBool(self.index.lookup_member(ci, "__call__") is not None)
        if self.table.names.get(cid) in ("function", "type", "method"):
            # host-owned functions/classes: callable; the spec-side predicate is the same uninterpreted one
            self.ctx.assume(self.hostfn("callable", "raises")(v))
            return VTrue
        self.ctx.assume(z3.Not(self.hostfn("callable", "raises")(v)))
        return VFalse

    def b_hasattr(self, args, kwargs, node, anchor):
        v, nm = args
        name = z3.simplify(Val.s(nm))
        if not z3.is_string_value(name):
            ob0 = self.pyobj(v)
            if isinstance(ob0, ModuleObj):
                return Val.VBool(z3.Function("ModHas_" + ob0.dotted.replace(".", "_"), S, B)(name))
            raise Unsupported("hasattr with symbolic name")
        attr = name.as_string()
        t = self.tag(v, "hasattr")
        if attr == "__class__":
            return VTrue
        if t != "ref":
            if attr == "__dict__":
                return VFalse
            raise Unsupported("hasattr(%s) on primitive" % attr)
        ob = self.pyobj(v)
        if ob is not None:
            if isinstance(ob, ExternObj):
                if ob.dotted == "threading" and attr == "gettrace":
                    return VTrue
                raise Unsupported("hasattr on extern %s" % ob.dotted)
            if isinstance(ob, ModuleObj):
                m = self.index.modules[ob.dotted]
                return VBool(self.index.resolve_global(m, attr) is not None)
            raise Unsupported("hasattr on %s" % type(ob).__name__)
        cid = self.class_of(v, "hasattr-class")
        if self.is_host_class(cid):
            # hasattr swallows AttributeError only; other exceptions propagate
            f_has = self.hostfn("hasattr_" + attr, "res")(v)
            raises = self.hostfn("hasattr_" + attr, "raises")(v)
            if self.ctx.branch(raises, "hasattr raises"):
                self.raise_symbolic(anchor, getattr(self.top, "host_ops_exc_base", "BaseException"), "host:hasattr")
            self.ctx.assume(Val.is_VBool(f_has))
            # link with getattr: hasattr true => attribute access does not raise AttributeError
            return f_has
        nm_ = self.table.names[cid]
        if attr == "__dict__" and self.table.info.get(cid) is None:
            return VBool(nm_ in ("function", "module", "type", "method"))     # builtin objects with an attribute dict
        if nm_ in ("dict", "list", "tuple", "set", "frozenset", "deque", "frame", "code"):
            return VBool(attr in ("__len__", "__iter__"))
        ci = self.table.info.get(cid)
        if ci is not None:
            if attr == "__dict__":
                return VTrue
            has = self.index.lookup_member(ci, attr) is not None or attr in self.index.instance_fields(ci)
            return VBool(has)
        raise Unsupported("hasattr on %s" % nm_)

    def b_getattr(self, args, kwargs, node, anchor):
        v, nm = args[0], args[1]
        default = args[2] if len(args) > 2 else None
        name = z3.simplify(Val.s(nm))
        if not z3.is_string_value(name):
            ob0 = self.pyobj(v) if self.tag(v, "getattr-dyn") == "ref" else None
            if isinstance(ob0, ModuleObj):
                key = ob0.dotted.replace(".", "_")
                has = z3.Function("ModHas_" + key, S, B)(name)
                val = z3.Function("ModVal_" + key, S, Val)(name)
                self.assume_shape(val, ANY_SORT)
                if default is not None:
                    return z3.If(has, val, default)
                if not self.ctx.branch(has, "module-has-attr"):
                    self.raise_("AttributeError", anchor)
                return val
            if ob0 is None and self.tag(v, "getattr-dyn") == "ref" and self.st.ghost.get("oneof_names") and \
                    self.ctx.must(z3.Select(self.st.typeof, Val.r(v)) == self.table.id("proto")):
                # getattr(message, message.WhichOneof(...)): one of the oneof's member fields
                for cand in self.st.ghost["oneof_names"]:
                    if self.ctx.branch(nm == VStr(cand), "oneof member " + cand):
                        return self.getattr_(v, cand, node)
                self.raise_("AttributeError", anchor)
            if ob0 is None and self.tag(v, "getattr-dyn") == "ref":
                # an agent object whose class customises attribute lookup: the lookup is that method's call
                cid0 = self.class_of(v, "getattr-dyn-class")
                ci0 = self.table.info.get(cid0)
                mem0 = self.index.lookup_member(ci0, "__getattribute__") if ci0 is not None else None
                if mem0:
                    try:
                        return self.call_function(mem0[1], None, [v, nm], {}, node)
                    except PyRaise as ex:
                        if default is not None and self.ctx.branch(self.exc_isa(ex.exc, "AttributeError"), "getattr-default"):
                            return default
                        raise
            dyn = self.contracts.get("extern:getattr-dynamic")
            if dyn is not None:
                return dyn.model(self, args, kwargs, node, anchor)
            raise Unsupported("getattr with symbolic name")
        attr = name.as_string()
        if default is None:
            return self.getattr_(v, attr, node)
        try:
            return self.getattr_(v, attr, node)
        except PyRaise as ex:
            if self.ctx.branch(self.exc_isa(ex.exc, "AttributeError"), "getattr-default"):
                return default
            raise

    def b_eval(self, args, kwargs, node, anchor):
        """eval(expr, globals, locals): trusted.  Runs host code: may raise any BaseException; the result is an
        arbitrary host value determined by (expr, scopes) - configured expressions are assumed side-effect free."""
        while len(args) < 3:
            args = list(args) + [VNone]
        self.st.log.append(LogEntry("eval", list(args), {}, None, anchor))
        f_raises = z3.Function("Eval_raises", Val, Val, Val, B)
        f_res = z3.Function("Eval_res", Val, Val, Val, Val)
        if self.ctx.branch(f_raises(*args[:3]), "eval raises"):
            self.raise_symbolic(anchor, "BaseException", "eval")
        res = f_res(*args[:3])
        from .core import ALLOC_BASE
        self.ctx.assume(z3.Implies(Val.is_VRef(res), z3.And(Val.r(res) > 0, Val.r(res) < ALLOC_BASE,
                        self.host_or_builtin_class(z3.Select(self.st.typeof, Val.r(res))))))
        return res

    def b_super(self, args, kwargs, node, anchor):
        raise Unsupported("super(args)")

    # ------------------------------------------------------------------ conversions
    def b_str(self, args, kwargs, node, anchor):
        if not args:
            return VStr("")
        return Val.VStr(self.to_str_checked(args[0], node))

    def b_repr(self, args, kwargs, node, anchor):
        return Val.VStr(self.repr_checked(args[0], node))

    def b_format(self, args, kwargs, node, anchor):
        v = args[0]
        spec = z3.simplify(Val.s(args[1])) if len(args) > 1 else None
        f = z3.Function("Format_%s" % (spec.as_string() if spec is not None else ""), Val, S)
        return Val.VStr(f(v))

    def b_bool(self, args, kwargs, node, anchor):
        return Val.VBool(self.truth(args[0], node))

    def b_len(self, args, kwargs, node, anchor):
        v = args[0]
        t = self.tag(v, "len")
        if t == "str":
            return Val.VInt(z3.Length(Val.s(v)))
        if t != "ref":
            self.raise_("TypeError", anchor)
        cid = self.class_of(v, "len-class")
        if self.is_host_class(cid):
            res = self.host_op("len", v, node)
            self.ctx.assume(z3.And(Val.is_VInt(res), Val.i(res) >= 0))
            return res
        nm = self.table.names[cid]
        r = Val.r(v)
        if nm in ("list", "tuple", "deque", "set", "frozenset"):
            self.ctx.assume(self.llen(r) >= 0)
            return Val.VInt(self.llen(r))
        if nm in ("dict", "OrderedDict"):
            self.ctx.assume(self.dlen(r) >= 0)
            return Val.VInt(self.dlen(r))
        ci = self.table.info.get(cid)
        if ci is not None:
            mem = self.index.lookup_member(ci, "__len__")
            if mem:
                return self.call_function(mem[1], None, [v], {}, node, anchor)
        self.raise_("TypeError", anchor)

    def b_int(self, args, kwargs, node, anchor):
        v = args[0]
        t = self.tag(v, "int-arg")
        if t == "int":
            return v
        if t == "bool":
            return Val.VInt(z3.If(Val.b(v), 1, 0))
        if t == "str":
            s = Val.s(v)
            if not self.ctx.branch(IntOk(s), "int-parse-ok"):
                self.raise_("ValueError", anchor)
            return Val.VInt(IntOf(s))
        if t == "float":
            f = Val.f(v)
            return Val.VInt(z3.If(f >= 0, z3.ToInt(f), -z3.ToInt(-f)))
        if t == "none":
            self.raise_("TypeError", anchor)
        cid = self.class_of(v, "int-arg-class")
        if self.is_host_class(cid):
            res = self.host_op("int", v, node)
            self.ctx.assume(Val.is_VInt(res))
            return res
        self.raise_("TypeError", anchor)

    def b_float(self, args, kwargs, node, anchor):
        v = args[0]
        t = self.tag(v, "float-arg")
        if t == "float":
            return v
        if t in ("int", "bool"):
            return Val.VFloat(z3.ToReal(self.num(v, t)))
        if t == "str":
            if not self.ctx.branch(FloatOk(v), "float-parse-ok"):
                self.raise_("ValueError", anchor)
            return Val.VFloat(FloatOf(v))
        if t == "none":
            self.raise_("TypeError", anchor)
        cid = self.class_of(v, "float-arg-class")
        if self.is_host_class(cid):
            res = self.host_op("float", v, node)
            self.ctx.assume(Val.is_VFloat(res))
            return res
        self.raise_("TypeError", anchor)

    def b_max(self, args, kwargs, node, anchor):
        if len(args) != 2:
            raise Unsupported("max arity")
        a, b = args
        ta, tb = self.tag(a, "max"), self.tag(b, "max")
        if ta in ("int", "bool") and tb in ("int", "bool"):
            x, y = self.num(a, ta), self.num(b, tb)
            return z3.If(y > x, b, a)
        raise Unsupported("max on %s,%s" % (ta, tb))

    # ------------------------------------------------------------------ containers
    def b_dict(self, args, kwargs, node, anchor):
        if not args:
            return self.st.new_dict([(VStr(k), v) for k, v in kwargs.items()])
        v = args[0]
        t = self.tag(v, "dict-arg")
        if t != "ref":
            self.raise_("TypeError", anchor)
        cid = self.class_of(v, "dict-arg-class")
        if self.is_host_class(cid):
            self.host_op("iter", v, node)
            raise Unsupported("dict(host)")
        nm = self.table.names[cid]
        if nm in ("dict", "OrderedDict"):
            return self.dict_copy(Val.r(v))
        ci = self.table.info.get(cid)
        if ci is not None and nm == "BoundedAttributes":
            inner = self.st.get_field(Val.r(v), "_dict")
            return self.dict_copy(Val.r(inner))
        if nm == "proto":
            return self.proto_map_to_dict(v)
        raise Unsupported("dict(%s)" % nm)

    def proto_map_to_dict(self, v):
        d = self.st.new_dict()
        r = Val.r(d)
        self.st.dhas = z3.Store(self.st.dhas, r, self.ctx.fresh("pmap_has", z3.ArraySort(Val, B)))
        self.st.dval = z3.Store(self.st.dval, r, self.ctx.fresh("pmap_val", z3.ArraySort(Val, Val)))
        self.st.dlen = z3.Store(self.st.dlen, r, self.ctx.fresh("pmap_len", I))
        self.ctx.assume(self.dlen(r) >= 0)
        kk = z3.Const("k!pmap", Val)
        # protobuf map<string,string>: every key and every value is text (trusted)
        self.ctx.assume(z3.ForAll([kk], z3.Implies(self.dhas(r, kk), z3.And(Val.is_VStr(kk), Val.is_VStr(self.dget(r, kk))))))
        self.st.ghost.setdefault("strdicts", []).append(d)
        return d

    new_dict_ = b_dict

    def b_new_dict(self, args, kwargs, node, anchor):
        return self.b_dict(args, kwargs, node, anchor)

    def b_new_list(self, args, kwargs, node, anchor):
        return self.b_list(args, kwargs, node, anchor)

    def b_new_tuple(self, args, kwargs, node, anchor):
        return self.b_tuple(args, kwargs, node, anchor)

    def b_new_str(self, args, kwargs, node, anchor):
        return self.b_str(args, kwargs, node, anchor)

    def b_new_int(self, args, kwargs, node, anchor):
        return self.b_int(args, kwargs, node, anchor) if args else VInt(0)

    def b_new_float(self, args, kwargs, node, anchor):
        return self.b_float(args, kwargs, node, anchor)

    def b_new_bool(self, args, kwargs, node, anchor):
        return self.b_bool(args, kwargs, node, anchor) if args else VFalse

    def b_new_type(self, args, kwargs, node, anchor):
        return self.b_type(args, kwargs, node, anchor)

    def b_new_set(self, args, kwargs, node, anchor):
        return self.seq_copy(args[0], "set", node, anchor) if args else self.st.new_list([], "set")

    def b_new_frozenset(self, args, kwargs, node, anchor):
        return self.seq_copy(args[0], "frozenset", node, anchor) if args else self.st.new_list([], "frozenset")

    def b_new_deque(self, args, kwargs, node, anchor):
        if args:
            raise Unsupported("deque(iterable)")
        return self.st.new_list([], "deque")

    # ---- OrderedDict: a dict plus the list of its keys in insertion order (field $okeys).
    # Representation invariant (trusted model): the key list holds exactly the keys, each once.
    def b_new_OrderedDict(self, args, kwargs, node, anchor):
        if args:
            raise Unsupported("OrderedDict(arg)")
        d = self.st.new_dict([], "OrderedDict")
        keys = self.st.new_list([], "list")
        self.st.fields["$okeys"] = z3.Store(self.st.field_arr("$okeys"), Val.r(d), keys)
        return d

    def od_keys(self, d):
        return self.st.get_field(Val.r(d), "$okeys")

    def od_find(self, d, k):
        """index of key k in the key list (exists and is unique by the representation invariant)"""
        keys = self.od_keys(d)
        i = self.ctx.fresh("od_idx", I)
        self.ctx.assume(z3.And(i >= 0, i < self.llen(Val.r(keys)), self.list_get(Val.r(keys), i) == k))
        return i

    def od_remove_at(self, d, i):
        keys = self.od_keys(d)
        r = Val.r(keys)
        n = self.llen(r)
        j = z3.Int("j!odrm")
        arr = z3.Lambda([j], z3.If(j < i, z3.Select(self.lel(r), j), z3.Select(self.lel(r), j + 1)))
        self.st.lel = z3.Store(self.st.lel, r, arr)
        self.st.llen = z3.Store(self.st.llen, r, n - 1)

    def b_OrderedDict_popitem(self, args, kwargs, node, anchor):
        d = args[0]
        last = kwargs.get("last", args[1] if len(args) > 1 else VTrue)
        r = Val.r(d)
        keys = self.od_keys(d)
        n = self.llen(Val.r(keys))
        self.ctx.assume(z3.And(n >= 0, n == self.dlen(r)))
        if not self.ctx.branch(n > 0, "popitem-nonempty"):
            self.raise_("KeyError", anchor)
        take_last = self.ctx.branch(self.truth(last, node), "popitem-last")
        idx = z3.simplify(n - 1) if take_last else z3.IntVal(0)
        k = self.list_get(Val.r(keys), idx)
        self.ctx.assume(self.dhas(r, k))
        v = self.dget(r, k)
        self.od_remove_at(d, idx)
        self.dict_del(r, k)
        self.st.log.append(LogEntry("od.popitem", [d, k], {}, None, anchor))
        return self.st.new_list([k, v], "tuple")

    def b_OrderedDict_copy(self, args, kwargs, node, anchor):
        d = args[0]
        new = self.dict_copy(Val.r(d), "OrderedDict")
        keys = self.od_keys(d)
        nk = self.st.new_list_arr(self.lel(Val.r(keys)), self.llen(Val.r(keys)), "list")
        self.st.fields["$okeys"] = z3.Store(self.st.field_arr("$okeys"), Val.r(new), nk)
        return new

    def b_OrderedDict_items(self, args, kwargs, node, anchor):
        d = args[0]
        keys = self.od_keys(d)
        r, kr = Val.r(d), Val.r(keys)
        rid = self.st.alloc(self.table.id("dict_items"))
        interp = self
        val = z3.Select(self.st.dval, r)
        karr = self.lel(kr)
        self.st.ghost.setdefault("views", {})[rid] = Seq(
            "list", self.llen(kr), lambda i: interp.st.new_list([z3.Select(karr, i), z3.Select(val, z3.Select(karr, i))], "tuple"))
        return VRef(rid)

    def b_OrderedDict_get(self, args, kwargs, node, anchor):
        return self.b_dict_get(args, kwargs, node, anchor)

    def b_OrderedDict_update(self, args, kwargs, node, anchor):
        """d.update(other): other's entries win key by key; existing keys keep their position, new keys are appended
        (the resulting key order is abstracted: only the mapping is tracked exactly)."""
        d, other = args
        cid = self.class_of(other, "update-arg-class")
        nm = self.table.names.get(cid) if cid is not None else None
        if nm == "BoundedAttributes":
            other = self.getattr_(other, "_dict", node)
        elif nm not in ("dict", "OrderedDict"):
            raise Unsupported("OrderedDict.update(%s)" % nm)
        self.b_dict_update([d, other], {}, node, anchor)
        keys = self.st.new_list_arr(self.ctx.fresh("od_keys_after_update", ArrIV), self.dlen(Val.r(d)), "list")
        self.st.fields["$okeys"] = z3.Store(self.st.field_arr("$okeys"), Val.r(d), keys)
        return VNone

    def b_MutableMapping_items(self, args, kwargs, node, anchor):
        """Mapping.items() of a BoundedAttributes: (key, self[key]) for the keys of a copy of the ordered store"""
        obj = args[0]
        cid = self.class_of(obj, "items-class")
        if self.table.names.get(cid) != "BoundedAttributes":
            raise Unsupported("MutableMapping.items on %s" % self.table.names.get(cid))
        return self.b_OrderedDict_items([self.getattr_(obj, "_dict", node)], {}, node, anchor)

    def b_MutableMapping_get(self, args, kwargs, node, anchor):
        obj, key = args[0], args[1]
        default = args[2] if len(args) > 2 else VNone
        d = self.getattr_(obj, "_dict", node)
        return self.b_dict_get([d, key, default], {}, node, anchor)

    def b_bytes_decode(self, args, kwargs, node, anchor):
        """b.decode([encoding[, errors]]): bytes known to be the UTF-8 encoding of a text give that text back; otherwise
        strict decoding may fail (UnicodeDecodeError) and the replacing handlers give some (encodable) text"""
        r0 = z3.simplify(Val.r(args[0]))
        known = self.st.ghost.get("encoded_bytes", {})
        enc = args[1] if len(args) > 1 else kwargs.get("encoding", VStr("utf-8"))
        errors = args[2] if len(args) > 2 else kwargs.get("errors", VStr("strict"))
        if z3.is_int_value(r0) and r0.as_long() in known and (enc.eq(VStr("utf-8")) or enc.eq(VStr("utf8"))):
            return known[r0.as_long()]        # bytes produced by encoding this very text as UTF-8
        es = z3.simplify(Val.s(errors))
        handler = es.as_string() if z3.is_string_value(es) else None
        ok = z3.Function("Utf8Decodable", Val, B)(args[0])
        dec = z3.Function("Decoded", Val, S)(args[0])
        if handler in ("replace", "ignore", "backslashreplace"):
            self.ctx.assume(z3.Function("Utf8Ok", S, B)(dec))
            return Val.VStr(dec)
        if not self.ctx.branch(ok, "bytes-decodable"):
            self.raise_("UnicodeDecodeError", anchor)
        return Val.VStr(dec)

    def b_new_Lock(self, args, kwargs, node, anchor):
        return VRef(self.st.alloc(self.table.id("Lock")))

    def b_new_object(self, args, kwargs, node, anchor):
        return VRef(self.st.alloc(self.table.id("object")))

    def _exc_new(self, cname):
        def mk(args, kwargs, node, anchor):
            return self.new_exc(cname, args)
        return mk

    def __getattr__(self, name):
        # constructors of builtin exception classes: new.<ExcName>
        if name.startswith("b_new_"):
            cname = name[len("b_new_"):]
            if cname in self.table.ids and self.table.issub(self.table.id(cname), self.table.id("BaseException")):
                return self._exc_new(cname)
        raise AttributeError(name)

    def seq_copy(self, v, kind, node, anchor):
        t = self.tag(v, "seq-arg")
        if t == "str":
            sx = Val.s(v)
            j = z3.Int("j!chars")
            return self.st.new_list_arr(z3.Lambda([j], Val.VStr(z3.SubString(sx, j, 1))), z3.Length(sx), kind)
        if t != "ref":
            self.raise_("TypeError", anchor)
        view = self.st.ghost.get("views", {}).get(self.concrete_ref(v))
        if view is None:
            cands = self.class_candidates(v)
            seqs = {self.table.id(n) for n in ("list", "tuple", "set", "frozenset", "deque")}
            if cands is not None and len(cands) > 1 and set(cands) <= seqs:
                cid = cands[0]
            else:
                cid = self.class_of(v, "seq-arg-class")
            if self.is_host_class(cid):
                res = self.host_op("iter", v, node)
                # consuming a host iterable: contents unknown; allowed only where the contract says so
                self.st.ghost.setdefault("host_iterated", []).append((v, anchor))
                rid = self.st.alloc(self.table.id(kind))
                r = z3.IntVal(rid)
                self.st.lel = z3.Store(self.st.lel, r, self.ctx.fresh("hostseq", ArrIV))
                ln = self.ctx.fresh("hostseq_len", I)
                self.ctx.assume(ln >= 0)
                self.st.llen = z3.Store(self.st.llen, r, ln)
                return VRef(rid)
        seq = view or self.iter_sequence(v, node)
        if seq.kind == "list" and seq.source is not None:
            r = Val.r(seq.source)
            return self.st.new_list_arr(self.lel(r), self.llen(r), kind)
        i = z3.Int("i!copy")
        n = self.ctx.value_of(seq.length)
        if n is not None and n <= 8:
            return self.st.new_list([seq.element(z3.IntVal(k)) for k in range(n)], kind)
        arr = self.ctx.fresh("seqcopy", ArrIV)
        rid = self.st.alloc(self.table.id(kind))
        r = z3.IntVal(rid)
        self.st.lel = z3.Store(self.st.lel, r, arr)
        self.st.llen = z3.Store(self.st.llen, r, seq.length)
        self.st.ghost.setdefault("views", {})[rid] = Seq(seq.kind, seq.length, seq.element, seq.source)
        return VRef(rid)

    def b_list(self, args, kwargs, node, anchor):
        if not args:
            return self.st.new_list([], "list")
        return self.seq_copy(args[0], "list", node, anchor)

    def b_tuple(self, args, kwargs, node, anchor):
        if not args:
            return self.st.new_list([], "tuple")
        return self.seq_copy(args[0], "tuple", node, anchor)

    def b_enumerate(self, args, kwargs, node, anchor):
        seq = self.iter_sequence(args[0], node)
        rid = self.st.alloc(self.table.id("list"))
        interp = self
        self.st.llen = z3.Store(self.st.llen, z3.IntVal(rid), seq.length)
        self.st.ghost.setdefault("views", {})[rid] = Seq(
            "list", seq.length, lambda i: interp.st.new_list([Val.VInt(i), seq.element(i)], "tuple"))
        return VRef(rid)

    def b_iter(self, args, kwargs, node, anchor):
        return self.seq_copy(args[0], "list", node, anchor)

    def b_next(self, args, kwargs, node, anchor):
        it = args[0]
        seq = self.iter_sequence(it, node)
        if self.ctx.branch(seq.length > 0, "next-nonempty"):
            return seq.element(z3.IntVal(0))
        if len(args) > 1:
            return args[1]
        self.raise_("StopIteration", anchor)

    # list methods
    def b_list_append(self, args, kwargs, node, anchor):
        self.check_owned(args[0], node, "append")
        self.list_append(Val.r(args[0]), args[1])
        self.st.log.append(LogEntry("list.append", [args[0], args[1]], {}, None, anchor))
        return VNone

    def b_list_appendleft(self, args, kwargs, node, anchor):
        raise Unsupported("appendleft")

    def b_list_pop(self, args, kwargs, node, anchor):
        lst = args[0]
        r = Val.r(lst)
        n = self.llen(r)
        self.ctx.assume(n >= 0)
        if not self.ctx.branch(n > 0, "pop-nonempty"):
            self.raise_("IndexError", anchor)
        self.check_owned(lst, node, "pop")
        esort = self.st.ghost.get("elem_sorts", {}).get(tkey(lst))
        if len(args) == 1:
            v = self.list_get(r, n - 1)
            if esort is not None:
                self.assume_shape(v, esort)
            self.st.llen = z3.Store(self.st.llen, r, n - 1)
            self.st.writes.append(("list", r, None))
            return v
        idx = args[1]
        ti = self.tag(idx, "pop-idx")
        i = self.norm_index(self.num(idx, ti), n)
        if not self.ctx.branch(z3.And(i >= 0, i < n), "pop-index-ok"):
            self.raise_("IndexError", anchor)
        v = self.list_get(r, z3.simplify(i))
        if esort is not None:
            self.assume_shape(v, esort)
        j = z3.Int("j!pop")
        arr = z3.Lambda([j], z3.If(j < i, z3.Select(self.lel(r), j), z3.Select(self.lel(r), j + 1)))
        self.st.lel = z3.Store(self.st.lel, r, arr)
        self.st.llen = z3.Store(self.st.llen, r, n - 1)
        self.st.writes.append(("list", r, None))
        return v

    def b_list_popleft(self, args, kwargs, node, anchor):
        return self.b_list_pop([args[0], VInt(0)], kwargs, node, anchor)

    def b_list_copy(self, args, kwargs, node, anchor):
        r = Val.r(args[0])
        new = self.st.new_list_arr(self.lel(r), self.llen(r), "list")
        es = self.st.ghost.get("elem_sorts", {}).get(tkey(args[0]))
        if es is not None:
            self.st.ghost["elem_sorts"][tkey(new)] = es
        return new

    def b_dict_pop(self, args, kwargs, node, anchor):
        d, k = args[0], z3.simplify(args[1])
        r = Val.r(d)
        had = self.dhas(r, k)
        if self.ctx.branch(had, "pop-has-key"):
            self.check_owned(d, node, "pop")
            val = self.dget(r, k)
            vs = self.st.ghost.get("dict_value_sorts", {}).get(tkey(d))
            if vs is not None:
                self.assume_shape(val, vs)
            self.dict_del(r, k)
            return val
        if len(args) > 2:
            return args[2]
        self.raise_("KeyError", anchor)

    def b_list_extend(self, args, kwargs, node, anchor):
        self.list_iadd(args[0], args[1], node)
        return VNone

    def b_list_sort(self, args, kwargs, node, anchor):
        lst = args[0]
        r = Val.r(lst)
        key = kwargs.get("key")
        n = self.llen(r)
        if key is not None:
            # key function is called once per element (arbitrary element; may raise)
            idx = self.ctx.fresh("sort_i", I)
            self.ctx.assume(z3.And(idx >= 0, idx < n))
            from .core import LogEntry
            le = LogEntry("list.sort", [lst], dict(kwargs), None, anchor)
            self.st.log.append(le)
            if self.ctx.branch(n > 0, "sort-nonempty"):
                el = self.list_get(r, idx)
                esort = self.st.ghost.get("elem_sorts", {}).get(tkey(lst))
                if esort is not None:
                    self.assume_shape(el, esort)
                kv = self.call_value(key, [el], {}, node, anchor=anchor + "/key")
                le.args = [lst, el, kv]          # the arbitrary element and its key (for-each lifting)
        else:
            from .core import LogEntry
            self.st.log.append(LogEntry("list.sort", [lst], dict(kwargs), None, anchor))
        # result: a permutation (contents abstracted, length kept)
        self.st.lel = z3.Store(self.st.lel, r, self.ctx.fresh("sorted", ArrIV))
        self.st.writes.append(("list", r, None))
        self.st.ghost.setdefault("sorted_lists", []).append(lst)
        return VNone

    # dict methods
    def b_dict_get(self, args, kwargs, node, anchor):
        d, k = args[0], z3.simplify(args[1])
        default = args[2] if len(args) > 2 else VNone
        r = Val.r(d)
        val = self.dget(r, k)
        rs = z3.simplify(r)
        if any(z3.simplify(Val.r(h)).eq(rs) for h in
               self.st.ghost.get("host_owned", []) + self.st.ghost.get("host_data_dicts", [])):
            # values stored in a dictionary owned by the host program are host values
            self.ctx.assume(z3.Implies(self.dhas(r, k), z3.Implies(Val.is_VRef(val), z3.And(
                Val.r(val) > 0, Val.r(val) < self.st.next_id,
                self.host_or_builtin_class(z3.Select(self.st.typeof, Val.r(val)))))))
        vs = self.st.ghost.get("dict_value_sorts", {}).get(tkey(d))
        if vs is not None:
            if vs.kind == "obj":
                t = self.table
                names = list(vs.subclasses) if vs.subclasses else [vs.cls]
                ids = [t.ids[n] if n in t.ids else self.index.find_class(n).cid for n in names]
                self.ctx.assume(z3.Implies(self.dhas(r, k), z3.And(
                    Val.is_VRef(val), Val.r(val) > 0, Val.r(val) < self.st.next_id,
                    z3.Or(*[z3.Select(self.st.typeof, Val.r(val)) == i for i in ids]))))
            elif vs.kind == "attrval":
                # what an attribute store holds (its proven invariant): a primitive or a builtin list / tuple
                self.ctx.assume(z3.Implies(self.dhas(r, k), z3.Or(z3.Not(Val.is_VRef(val)), z3.And(
                    Val.r(val) > 0, Val.r(val) < self.st.next_id,
                    z3.Or(z3.Select(self.st.typeof, Val.r(val)) == self.table.id("list"),
                          z3.Select(self.st.typeof, Val.r(val)) == self.table.id("tuple"))))))
            elif self.ctx.must(self.dhas(r, k)):
                self.assume_shape(val, vs)
        return z3.If(self.dhas(r, k), val, default)

    def b_dict_keys(self, args, kwargs, node, anchor):
        return self._dict_view(args[0], "keys")

    def b_dict_values(self, args, kwargs, node, anchor):
        return self._dict_view(args[0], "values")

    def b_dict_items(self, args, kwargs, node, anchor):
        return self._dict_view(args[0], "items")

    def _dict_view(self, d, what):
        r = Val.r(d)
        rid = self.st.alloc(self.table.id("dict_" + what))
        self.st.ghost.setdefault("views", {})[rid] = self.dict_seq(r, what)
        return VRef(rid)

    def b_dict_copy(self, args, kwargs, node, anchor):
        return self.dict_copy(Val.r(args[0]))

    def b_dict_update(self, args, kwargs, node, anchor):
        d, other = args
        self.check_owned(d, node, "update")
        r = Val.r(d)
        to = self.tag(other, "update-arg")
        if to != "ref":
            self.raise_("TypeError", anchor)
        cid = self.class_of(other, "update-arg-class")
        nm = self.table.names.get(cid) if cid is not None else None
        if nm == "BoundedAttributes":
            other = self.st.get_field(Val.r(other), "_dict")
            nm = "dict"
        if nm not in ("dict", "OrderedDict"):
            raise Unsupported("dict.update(%s)" % nm)
        ro = Val.r(other)
        k = z3.Const("k!upd", Val)
        oh, ov = z3.Select(self.st.dhas, ro), z3.Select(self.st.dval, ro)
        h, v = z3.Select(self.st.dhas, r), z3.Select(self.st.dval, r)
        nh = z3.Lambda([k], z3.Or(z3.Select(h, k), z3.Select(oh, k)))
        nv = z3.Lambda([k], z3.If(z3.Select(oh, k), z3.Select(ov, k), z3.Select(v, k)))
        ln = self.ctx.fresh("upd_len", I)
        self.ctx.assume(z3.And(ln >= self.dlen(r), ln >= self.dlen(ro), ln <= self.dlen(r) + self.dlen(ro)))
        self.st.dhas = z3.Store(self.st.dhas, r, nh)
        self.st.dval = z3.Store(self.st.dval, r, nv)
        self.st.dlen = z3.Store(self.st.dlen, r, ln)
        self.st.writes.append(("dict", r, None))
        return VNone

    # ------------------------------------------------------------------ strings
    def _sarg(self, v, anchor):
        if self.tag(v, "str-method-arg") != "str":
            self.raise_("TypeError", anchor)
        return Val.s(v)

    def b_str_startswith(self, args, kwargs, node, anchor):
        s = Val.s(args[0])
        p = args[1]
        tp = self.tag(p, "startswith-arg")
        if tp == "str":
            return Val.VBool(z3.PrefixOf(Val.s(p), s))
        if tp == "ref":
            cid = self.class_of(p, "startswith-arg-class")
            if cid == self.table.id("tuple"):
                n = self.ctx.value_of(self.llen(Val.r(p)))
                if n is None:
                    raise Unsupported("startswith(tuple of unknown length)")
                cs = []
                for i in range(n):
                    e = self.list_get(Val.r(p), z3.IntVal(i))
                    if self.tag(e, "startswith-el") != "str":
                        self.raise_("TypeError", anchor)
                    cs.append(z3.PrefixOf(Val.s(e), s))
                return Val.VBool(z3.Or(*cs) if cs else z3.BoolVal(False))
        self.raise_("TypeError", anchor)

    def b_str_endswith(self, args, kwargs, node, anchor):
        return Val.VBool(z3.SuffixOf(self._sarg(args[1], anchor), Val.s(args[0])))

    def b_str_lower(self, args, kwargs, node, anchor):
        return Val.VStr(Lower(Val.s(args[0])))

    def b_str_upper(self, args, kwargs, node, anchor):
        return Val.VStr(Upper(Val.s(args[0])))

    def b_str_strip(self, args, kwargs, node, anchor):
        s = Strip(Val.s(args[0]))
        self.ctx.assume(z3.Length(s) <= z3.Length(Val.s(args[0])))
        return Val.VStr(s)

    def b_int_to_bytes(self, args, kwargs, node, anchor):
        """i.to_bytes(n, order): OverflowError when the value does not fit (negative, or >= 256**n)."""
        i, n = Val.i(args[0]), Val.i(args[1])
        nv = self.ctx.value_of(n)
        if nv is None:
            raise Unsupported("to_bytes with symbolic length")
        if not self.ctx.branch(z3.And(i >= 0, i < z3.IntVal(256 ** nv)), "fits-in-bytes"):
            self.raise_("ArithmeticError", anchor)
        rid = self.st.alloc(self.table.id("bytes"))
        self.st.set_field(z3.IntVal(rid), "$int", args[0])
        self.st.writes.pop()
        return VRef(rid)

    def b_bytes_hex(self, args, kwargs, node, anchor):
        return Val.VStr(z3.Function("HexOf", Val, S)(args[0]))

    NEVER_FAILING_HANDLERS = ("backslashreplace", "replace", "ignore", "xmlcharrefreplace", "namereplace")

    def b_str_encode(self, args, kwargs, node, anchor):
        """s.encode("utf-8"[, errors]).  strict: UnicodeEncodeError unless Utf8Ok(s).  The handlers that replace what
        cannot be encoded never fail: "backslashreplace" yields the bytes of Utf8Escape(s) (encodable; equal to s when s is
        encodable), the others some encodable text equal to s when s is encodable.  Any other handler (e.g.
        "surrogateescape", which only copes with some of the un-encodable characters) may still fail on un-encodable text and
        produces bytes that need not be valid UTF-8."""
        f = z3.Function("Utf8Ok", S, B)
        esc = z3.Function("Utf8Escape", S, S)
        enc = args[1] if len(args) > 1 else kwargs.get("encoding", VStr("utf-8"))
        errors = args[2] if len(args) > 2 else kwargs.get("errors", VStr("strict"))
        if not (enc.eq(VStr("utf-8")) or enc.eq(VStr("utf8"))):
            raise Unsupported("encode to %s" % enc)
        s = Val.s(args[0])
        es = z3.simplify(Val.s(errors))
        handler = es.as_string() if z3.is_string_value(es) else None
        rid = None
        if handler == "strict":
            if not self.ctx.branch(f(s), "utf8-encodable"):
                self.raise_("UnicodeEncodeError", anchor)
            text = args[0]
        elif handler == "backslashreplace":
            self.ctx.assume(z3.And(f(esc(s)), z3.Implies(f(s), esc(s) == s)))
            text = Val.VStr(esc(s))
        elif handler in self.NEVER_FAILING_HANDLERS:
            e2 = z3.Function("Utf8Repl_" + handler, S, S)
            self.ctx.assume(z3.And(f(e2(s)), z3.Implies(f(s), e2(s) == s)))
            text = Val.VStr(e2(s))
        else:
            ok = z3.Function("EncOk_" + (handler or "unknown"), S, B)
            self.ctx.assume(z3.Implies(f(s), ok(s)))
            if not self.ctx.branch(ok(s), "encodable-with-handler"):
                self.raise_("UnicodeEncodeError", anchor)
            rid = self.st.alloc(self.table.id("bytes"))
            if self.ctx.branch(f(s), "was-encodable-anyway"):
                text = args[0]
            else:
                return VRef(rid)          # bytes that are not the UTF-8 encoding of any text
        rid = self.st.alloc(self.table.id("bytes")) if rid is None else rid
        self.st.set_field(z3.IntVal(rid), "$text", text)
        self.st.writes.pop()
        self.st.ghost.setdefault("encoded_bytes", {})[rid] = text
        return VRef(rid)

    def b_str_split(self, args, kwargs, node, anchor):
        """s.split(sep): parts abstracted; joining them with sep gives s back (not needed by the proofs):
        only the length (>= 1) and that every part is a str are known."""
        rid = self.st.alloc(self.table.id("list"))
        r = z3.IntVal(rid)
        arr = self.ctx.fresh("split", ArrIV)
        n = self.ctx.fresh("split_n", I)
        self.ctx.assume(n >= 1)
        if "maxsplit" in kwargs or len(args) > 2:
            ms = kwargs.get("maxsplit", args[2] if len(args) > 2 else None)
            self.ctx.assume(n <= Val.i(ms) + 1)
        if len(args) > 1:
            sep = self._sarg(args[1], anchor)
            self.ctx.assume((n == 1) == z3.Not(z3.Contains(Val.s(args[0]), sep)))
            self.ctx.assume(z3.Implies(n == 1, z3.Select(arr, 0) == args[0]))
        self.st.lel = z3.Store(self.st.lel, r, arr)
        self.st.llen = z3.Store(self.st.llen, r, n)
        jj = z3.Int("j!split")
        self.ctx.assume(z3.ForAll([jj], Val.is_VStr(z3.Select(arr, jj))))       # every part is text
        self.st.ghost.setdefault("elem_sorts", {})[tkey(VRef(rid))] = P_STR
        self.st.ghost.setdefault("str_lists", []).append(VRef(rid))
        self.st.ghost.setdefault("split_of", {})[rid] = (args[0], args[1] if len(args) > 1 else None)
        return VRef(rid)

    b_str_rsplit = b_str_split

    # ------------------------------------------------------------------ os / sys / misc externs
    def b_os_path_basename(self, args, kwargs, node, anchor):
        if self.tag(args[0], "basename-arg") != "str":
            self.raise_("TypeError", anchor)
        return Val.VStr(Basename(Val.s(args[0])))

    def b_os_path_dirname(self, args, kwargs, node, anchor):
        if self.tag(args[0], "dirname-arg") != "str":
            self.raise_("TypeError", anchor)
        return Val.VStr(Dirname(Val.s(args[0])))

    def b_os_getenv(self, args, kwargs, node, anchor):
        key = args[0]
        default = args[1] if len(args) > 1 else kwargs.get("default", VNone)
        env = z3.Function("EnvHas", S, B)
        envv = z3.Function("EnvVal", S, S)
        k = Val.s(key)
        return z3.If(env(k), Val.VStr(envv(k)), default)

    def b_os_environ_get(self, args, kwargs, node, anchor):
        return self.b_os_getenv(args, kwargs, node, anchor)

    def b_uuid_uuid4(self, args, kwargs, node, anchor):
        rid = self.st.alloc(self.table.id("UUID"))
        n = self.st.ghost.get("uuid_count", 0)
        self.st.ghost["uuid_count"] = n + 1
        u = z3.Function("Uuid", I, S)
        base = self.st.ghost.setdefault("uuid_base", z3.Int("uuid_base"))
        s = u(base + n)
        self.st.set_field(z3.IntVal(rid), "$str", Val.VStr(s))
        self.st.writes.pop()
        self.st.ghost.setdefault("uuids", []).append(s)
        return VRef(rid)

    def b_time_time_ns(self, args, kwargs, node, anchor):
        t = self.ctx.fresh("now_ns", I)
        last = self.st.ghost.get("clock")
        self.ctx.assume(t > 0)
        self.st.ghost["clock"] = t
        return Val.VInt(t)

    def b_time_time(self, args, kwargs, node, anchor):
        t = self.ctx.fresh("now_s", R)
        self.ctx.assume(t > 0)
        return Val.VFloat(t)

    def b_random_getrandbits(self, args, kwargs, node, anchor):
        t = self.ctx.fresh("rand", I)
        self.ctx.assume(t >= 0)
        return Val.VInt(t)

    def b_threading_current_thread(self, args, kwargs, node, anchor):
        rid = self.st.ghost.get("cur_thread")
        if rid is None:
            rid = self.st.alloc(self.table.id("Thread"))
            self.st.ghost["cur_thread"] = rid
            ident = z3.Int("thread_ident")
            self.st.set_field(z3.IntVal(rid), "ident", Val.VInt(ident))
            self.st.writes.pop()
            self.st.set_field(z3.IntVal(rid), "name", Val.VStr(z3.String("thread_name")))
            self.st.writes.pop()
        return VRef(rid)

    def b_Thread_ident(self, args, kwargs, node, anchor):
        raise Unsupported("Thread.ident call")

    def b_Thread_start(self, args, kwargs, node, anchor):
        self.st.log.append(LogEntry("Thread.start", list(args), kwargs, None, anchor))
        return VNone

    def b_Thread_join(self, args, kwargs, node, anchor):
        self.st.log.append(LogEntry("Thread.join", list(args), kwargs, None, anchor))
        return VNone

    def b_Event_set(self, args, kwargs, node, anchor):
        self.st.log.append(LogEntry("Event.set", list(args), kwargs, None, anchor))
        return VNone

    def b_Event_wait(self, args, kwargs, node, anchor):
        """Event.wait(timeout): True iff the event was set (by some thread) before the timeout ran out; a timeout that is
        not a number is a TypeError"""
        self.st.log.append(LogEntry("Event.wait", list(args), kwargs, None, anchor))
        if len(args) > 1 and self.tag(args[1], "wait-timeout") not in ("int", "float", "none", "bool"):
            self.raise_("TypeError", anchor)
        res = Val.VBool(self.ctx.fresh("event_was_set", B))
        self.st.log[-1].result = res
        return res

    def b_Lock___enter__(self, args, kwargs, node, anchor):
        return VNone

    def b_Lock___exit__(self, args, kwargs, node, anchor):
        return VNone

    def b_object___init__(self, args, kwargs, node, anchor):
        return VNone

    def b_object___getattribute__(self, args, kwargs, node, anchor):
        """Default attribute lookup with a computed name: the object's own attributes are an abstract partial map
        (OwnHas / OwnVal); a missing name raises AttributeError."""
        obj, nm = args[0], args[1]
        has = z3.Function("OwnHas", Val, S, B)(obj, Val.s(nm))
        val = z3.Function("OwnVal", Val, S, Val)(obj, Val.s(nm))
        if not self.ctx.branch(has, "own-attribute-exists"):
            self.raise_("AttributeError", anchor)
        return val

    def b_object___setattr__(self, args, kwargs, node, anchor):
        obj, nm, v = args
        name = z3.simplify(Val.s(nm))
        if not z3.is_string_value(name):
            # dynamic attribute store on an agent object: recorded as a write of an unknown field
            self.st.writes.append(("field", Val.r(obj), "*"))
            return VNone
        self.st.set_field(Val.r(obj), name.as_string(), v)
        return VNone

    def apply_extern_contract(self, ext, name, args, kwargs, node, anchor):
        return ext.model(self, args, kwargs, node, anchor)
