"""Core of pyvc: sorts, class table, path explorer, symbolic state.

Semantic model (the assumptions of the encoding) -- see DESIGN.md section 4.2:
  * every Python value is a term of the z3 datatype `Val`
      VNone | VBool(b) | VInt(i: unbounded Int) | VStr(s: String) | VFloat(f: Real) | VRef(r: Int)
  * heap: one z3 array per attribute name (Burstall), lists/tuples/deques as (length, Array Int Val),
    dicts as (domain Array Val Bool, value Array Val Val, length), a type map ref -> class id.
  * floats are reals (no rounding); `str()`/`repr()`/`int(str)`/`lower`/`strip`/`basename` are
    uninterpreted functions shared between code and specification.
"""
import itertools
import z3

# ----------------------------------------------------------------------------- sorts
_V = z3.Datatype("Val")
_V.declare("VNone")
_V.declare("VBool", ("b", z3.BoolSort()))
_V.declare("VInt", ("i", z3.IntSort()))
_V.declare("VStr", ("s", z3.StringSort()))
_V.declare("VFloat", ("f", z3.RealSort()))
_V.declare("VRef", ("r", z3.IntSort()))
Val = _V.create()

I, B, S, R = z3.IntSort(), z3.BoolSort(), z3.StringSort(), z3.RealSort()
ArrIV = z3.ArraySort(I, Val)
ArrVB = z3.ArraySort(Val, B)
ArrVV = z3.ArraySort(Val, Val)

VNone = Val.VNone
VTrue = Val.VBool(z3.BoolVal(True))
VFalse = Val.VBool(z3.BoolVal(False))


def tkey(t):
    """Dictionary key of a term: its simplified SMT-LIB text (the C printer: linear in the DAG and exact - the
    Python pretty printer expands shared subterms and abbreviates deep ones)."""
    return z3.simplify(t).sexpr()


def VInt(x):
    return Val.VInt(z3.IntVal(x) if isinstance(x, int) else x)


def VStr(x):
    return Val.VStr(z3.StringVal(x) if isinstance(x, str) else x)


def VBool(x):
    return Val.VBool(z3.BoolVal(x) if isinstance(x, bool) else x)


def VRef(x):
    return Val.VRef(z3.IntVal(x) if isinstance(x, int) else x)


def VFloat(x):
    return Val.VFloat(z3.RealVal(x) if isinstance(x, (int, float)) else x)


# uninterpreted functions shared by code and specs
ClassName = z3.Function("ClassName", I, S)
IsSub = z3.Function("IsSub", I, I, B)
StrOf = z3.Function("StrOf", Val, S)          # str(v)
ReprOf = z3.Function("ReprOf", Val, S)
IntOk = z3.Function("IntOk", S, B)            # int(s) succeeds
IntOf = z3.Function("IntOf", S, I)            # value of int(s)
FloatOk = z3.Function("FloatOk", Val, B)
FloatOf = z3.Function("FloatOf", Val, R)
Lower = z3.Function("Lower", S, S)
Upper = z3.Function("Upper", S, S)
Strip = z3.Function("Strip", S, S)
Basename = z3.Function("Basename", S, S)
Dirname = z3.Function("Dirname", S, S)
Unquote = z3.Function("Unquote", S, S)
IdStr = z3.Function("IdStr", Val, S)          # str(id(v))
FmtOpaque = {}                                # format string -> uninterpreted function

TYPEBASE = 900_000_000_000       # ref of the class object of class id c is TYPEBASE + c
ENUM_BASE = 900_000
ALLOC_BASE = 1_000_000     # refs allocated on a path are concrete numerals >= ALLOC_BASE
HOST_CLASS_BASE = 10_000   # class ids >= this are unknown host classes


class Unsupported(Exception):
    """Construct outside the verified subset: the function is undecided, never a pass or violation."""


class PathAbort(Exception):
    """End of the current path (infeasible, or loop iteration verified)."""


# ----------------------------------------------------------------------------- class table
class ClassTable:
    """Class ids.  Builtins first, then repo classes (sorted by key for determinism)."""

    BUILTINS = [
        # name, bases
        ("object", []), ("NoneType", ["object"]), ("int", ["object"]), ("bool", ["int"]), ("str", ["object"]),
        ("float", ["object"]), ("bytes", ["object"]), ("dict", ["object"]), ("list", ["object"]),
        ("tuple", ["object"]), ("set", ["object"]), ("frozenset", ["object"]), ("deque", ["object"]),
        ("OrderedDict", ["dict"]), ("function", ["object"]), ("type", ["object"]), ("module", ["object"]),
        ("frame", ["object"]), ("code", ["object"]), ("method", ["object"]), ("generator", ["object"]),
        ("Lock", ["object"]), ("Future", ["object"]), ("Thread", ["object"]), ("Event", ["object"]),
        ("ThreadPoolExecutor", ["object"]), ("dict_keys", ["object"]), ("dict_items", ["object"]),
        ("dict_values", ["object"]), ("Formatter", ["object"]), ("Enum", ["object"]), ("ABC", ["object"]),
        ("Generic", ["object"]), ("MutableMapping", ["object"]), ("Sequence", ["object"]),
        ("UUID", ["object"]), ("proto", ["object"]),
        ("BaseException", ["object"]), ("Exception", ["BaseException"]),
        ("KeyboardInterrupt", ["BaseException"]), ("SystemExit", ["BaseException"]),
        ("GeneratorExit", ["BaseException"]),
        ("ArithmeticError", ["Exception"]), ("ZeroDivisionError", ["ArithmeticError"]),
        ("AssertionError", ["Exception"]), ("AttributeError", ["Exception"]), ("ImportError", ["Exception"]),
        ("LookupError", ["Exception"]), ("IndexError", ["LookupError"]), ("KeyError", ["LookupError"]),
        ("NameError", ["Exception"]), ("OSError", ["Exception"]), ("TimeoutError", ["OSError"]),
        ("RuntimeError", ["Exception"]), ("NotImplementedError", ["RuntimeError"]),
        ("RecursionError", ["RuntimeError"]), ("StopIteration", ["Exception"]),
        ("TypeError", ["Exception"]), ("ValueError", ["Exception"]), ("UnicodeError", ["ValueError"]),
        ("UnicodeDecodeError", ["UnicodeError"]), ("UnicodeEncodeError", ["UnicodeError"]),
        ("CancelledError", ["BaseException"]),
        ("MemoryError", ["Exception"]),
        ("ConnectionError", ["OSError"]), ("FileNotFoundError", ["OSError"]), ("PermissionError", ["OSError"]),
        ("OverflowError", ["ArithmeticError"]), ("EOFError", ["Exception"]), ("ModuleNotFoundError", ["ImportError"]),
        ("UnboundLocalError", ["NameError"]), ("BufferError", ["Exception"]), ("ReferenceError", ["Exception"]),
        ("SystemError", ["Exception"]), ("StopAsyncIteration", ["Exception"]),
    ]
    EXTERN_ALIASES = {
        "abc.ABC": "ABC", "typing.Generic": "Generic", "MutableMapping": "MutableMapping",
        "typing.MutableMapping": "MutableMapping", "string.Formatter": "Formatter", "Enum": "Enum",
        "enum.Enum": "Enum", "collections.OrderedDict": "OrderedDict", "collections.deque": "deque",
    }

    def __init__(self, index):
        self.index = index
        self.ids = {}        # name/key -> id
        self.names = {}      # id -> python __name__
        self.parents = {}    # id -> list of ids
        self.info = {}       # id -> ClassInfo (repo classes)
        n = 1
        for name, bases in self.BUILTINS:
            self.ids[name] = n
            self.names[n] = name
            self.parents[n] = [self.ids[b] for b in bases]
            n += 1
        n = 200
        allc = []
        for m in index.modules.values():
            for c in m.classes.values():
                allc.append(c)
        allc.sort(key=lambda c: c.key)
        for c in allc:
            self.ids[c.key] = n
            self.names[n] = c.name
            self.info[n] = c
            c.cid = n
            n += 1
        for c in allc:
            ps = []
            for b in index.class_bases(c):
                if hasattr(b, "cid"):
                    ps.append(b.cid)
                else:
                    nm = b[1]
                    nm = self.EXTERN_ALIASES.get(nm, nm.split(".")[-1])
                    ps.append(self.ids.get(nm, self.ids["object"]))
            if not ps:
                ps = [self.ids["object"]]
            self.parents[c.cid] = ps
        self._anc = {}
        # enum members: fixed refs below ALLOC_BASE so that pre-existing objects can refer to them
        self.enum_refs = {}      # (cid, member) -> ref
        self.enum_by_ref = {}
        for c in allc:
            ext = []
            for b in index.class_bases(c):
                if not hasattr(b, "cid"):
                    ext.append(b[1].split(".")[-1])
            if "Enum" in ext:
                for i, m in enumerate(c.class_attrs):
                    ref = ENUM_BASE + (c.cid - 200) * 20 + i
                    self.enum_refs[(c.cid, m)] = ref
                    self.enum_by_ref[ref] = (c.cid, m)

    def id(self, name):
        return self.ids[name]

    def ancestors(self, cid):
        if cid in self._anc:
            return self._anc[cid]
        out = {cid}
        for p in self.parents.get(cid, []):
            out |= self.ancestors(p)
        self._anc[cid] = out
        return out

    def issub(self, c, k):
        return k in self.ancestors(c)

    def known_ids(self):
        return sorted(self.names)

    def axioms(self):
        """Ground facts: names of the known classes, the subclass relation between known classes."""
        ax = []
        ks = self.known_ids()
        for k in ks:
            ax.append(ClassName(z3.IntVal(k)) == z3.StringVal(self.names[k]))
        for const in ("True", "False", "None", "true", "false", "yes", "1", "y", "t"):
            ax.append(Lower(z3.StringVal(const)) == z3.StringVal(const.lower()))      # str.lower on these constants
        exc = [k for k in ks if self.issub(k, self.ids["BaseException"])]
        for a in exc:
            for b in exc:
                ax.append(IsSub(z3.IntVal(a), z3.IntVal(b)) == z3.BoolVal(self.issub(a, b)))
        return ax

    def interesting_exceptions(self):
        """Exception classes the code can discriminate on: those named in `except` clauses anywhere in the
        repo (and the roots), closed under ancestors.  Symbolic exception classes are only ever compared
        against these."""
        got = getattr(self, "_interesting", None)
        if got is not None:
            return got
        import ast as _ast
        names = {"BaseException", "Exception"}
        for m in self.index.modules.values():
            for n in _ast.walk(m.tree):
                if isinstance(n, _ast.ExceptHandler) and n.type is not None:
                    ts = n.type.elts if isinstance(n.type, _ast.Tuple) else [n.type]
                    for t in ts:
                        if isinstance(t, _ast.Name):
                            names.add(t.id)
                        elif isinstance(t, _ast.Attribute):
                            names.add(t.attr)
        ids = set()
        for nm in names:
            k = self.ids.get(nm)
            if k is None:
                cands = [c.cid for c in self.info.values() if c.name == nm]
                k = cands[0] if cands else None
            if k is not None and self.issub(k, self.ids["BaseException"]):
                ids |= {a for a in self.ancestors(k) if self.issub(a, self.ids["BaseException"])}
        self._interesting = sorted(ids)
        return self._interesting

    def exc_closure(self, c):
        """Constraints for a symbolic exception class id c (closure over the classes the code discriminates)."""
        out = [IsSub(c, z3.IntVal(self.ids["BaseException"]))]
        exc = self.interesting_exceptions()
        for a in exc:
            for p in self.parents[a]:
                if p in exc:
                    out.append(z3.Implies(IsSub(c, z3.IntVal(a)), IsSub(c, z3.IntVal(p))))
            out.append(z3.Implies(c == z3.IntVal(a), IsSub(c, z3.IntVal(a))))
        return out


# ----------------------------------------------------------------------------- path exploration
class Failure:
    def __init__(self, name, kind, status, model_txt=None, model=None, detail="", pc=None, goal=None, meta=None):
        self.name = name
        self.kind = kind
        self.status = status      # 'violated' | 'unknown'
        self.model_txt = model_txt
        self.model = model
        self.detail = detail
        self.pc = pc
        self.goal = goal
        self.meta = meta or {}


class Explorer:
    """Enumerates the paths of a deterministic single-path interpreter by decision replay."""

    def __init__(self, axioms, timeout_ms=10000, max_paths=4000):
        self.axioms = axioms
        self.timeout_ms = timeout_ms
        self.max_paths = max_paths
        self.stack = []
        for kv in (_os.environ.get("PYVC_Z3_PARAMS") or "").split(","):
            if "=" in kv:
                k, v = kv.split("=")
                z3.set_param(k, int(v) if v.isdigit() else (v == "true" if v in ("true", "false") else v))
        self.solver = z3.Solver()
        self.solver.set("timeout", timeout_ms)
        for a in axioms:
            self.solver.add(a)
        self.obligations = {}     # name -> dict(kind, vcs, failed:list[Failure], time)
        self.n_paths = 0
        self.by_backend = {}
        self.solver_time = 0.0
        self.n_checks = 0
        self.notes = []

    def run(self, run_one):
        self.stack = []
        while True:
            self.n_paths += 1
            if self.n_paths > self.max_paths:
                raise Unsupported("path budget exceeded (%d)" % self.max_paths)
            ctx = PathCtx(self, [list(d) for d in self.stack])
            self.solver.push()
            try:
                run_one(ctx)
            except PathAbort as pa:
                self.notes.append(str(pa))
            finally:
                self.solver.pop()
            self.stack = ctx.trace
            while self.stack and not self.stack[-1][1]:
                self.stack.pop()
            if not self.stack:
                break
            top = self.stack[-1]
            top[0] = top[1].pop(0)

    def record(self, name, kind, ok, failure=None, dt=0.0, live=True, const_false=False):
        o = self.obligations.setdefault(name, {"kind": kind, "vcs": 0, "failed": [], "time": 0.0, "live": 0,
                                               "const_false": True})
        o["vcs"] += 1
        o["time"] += dt
        if live:
            o["live"] += 1          # path VCs whose path condition is satisfiable (the VC is not vacuous)
        if not const_false:
            o["const_false"] = False
        if not ok:
            o["failed"].append(failure)


class PathCtx:
    def __init__(self, explorer, prefix):
        self.ex = explorer
        self.prefix = prefix
        self.trace = []
        self.pos = 0
        self.solver = explorer.solver
        self.pc = []
        self.model = None          # a model of the (quantifier-free) path condition, when one is known
        self.lemmas = []
        self._fresh = itertools.count()
        self.labels = []

    # -- fresh symbols (deterministic per path)
    def fresh(self, prefix, sort):
        return z3.Const("%s!%d" % (prefix, next(self._fresh)), sort)

    def assume(self, cond):
        if z3.is_true(cond):
            return
        if z3.is_and(cond) and has_quantifier(cond):
            for ch in cond.children():      # keep the quantifier-free conjuncts in the feasibility solver
                self.assume(ch)
            return
        self.pc.append(cond)
        if self.model is not None:
            try:
                if not z3.is_true(self.model.eval(cond, model_completion=True)):
                    self.model = None
            except z3.Z3Exception:
                self.model = None
        if has_quantifier(cond):
            # quantified facts are kept out of the feasibility / model queries (z3 answers `unknown` for
            # satisfiable quantified problems); they are added whenever something has to be *proved*
            self.lemmas.append(cond)
            return
        self.solver.add(cond)

    def _prove_unsat(self, *extra, quick=False):
        """check() of path condition + lemmas + extra (used for proof-direction queries).
        quick: small time budget (refutations by instantiation are fast; satisfiable quantified queries are not)."""
        if not self.lemmas:
            return self._check(*extra)
        self.solver.push()
        try:
            if quick:
                self.solver.set("timeout", 400)
            for l in self.lemmas:
                self.solver.add(l)
            return self._check(*extra)
        finally:
            if quick:
                self.solver.set("timeout", self.ex.timeout_ms)
            self.solver.pop()

    def _check(self, *assumptions):
        import time
        t0 = time.time()
        r = self.solver.check(*assumptions)
        self.ex.solver_time += time.time() - t0
        self.ex.n_checks += 1
        return r

    def feasible(self, cond):
        c = z3.simplify(cond)
        if z3.is_true(c):
            return True
        if z3.is_false(c):
            return False
        if self.model is not None:
            try:
                if z3.is_true(self.model.eval(c, model_completion=True)):
                    return True        # the known model of the path condition already satisfies it
            except z3.Z3Exception:
                pass
        r = self._check(c)
        if r == z3.sat:
            try:
                self.model = self.solver.model()
            except z3.Z3Exception:
                self.model = None
        return r != z3.unsat

    def choose(self, conds, label=""):
        """Pick one feasible alternative; the others are explored on later paths."""
        p = self.pos
        self.pos += 1
        if p < len(self.prefix):
            idx = self.prefix[p][0]
            self.trace.append(self.prefix[p])
            self.assume(conds[idx])
            return idx
        feas = []
        for i, c in enumerate(conds):
            if i == len(conds) - 1 and not feas and len(conds) == 2 and conds[1].eq(z3.Not(conds[0])):
                feas.append(i)      # c infeasible => not c feasible (path condition is satisfiable)
            elif self.feasible(c):
                feas.append(i)
        if self.lemmas and feas:
            # options refuted by the quantified lemmas are dead (only `unsat` is trusted from that query)
            if _os.environ.get("PYVC_PRUNE"):
                feas = [i for i in feas if self._prove_unsat(conds[i], quick=True) != z3.unsat]
        if not feas:
            self.trace.append([0, []])
            raise PathAbort("infeasible at choose(%s)" % label)
        first, rest = feas[0], feas[1:]
        self.trace.append([first, rest])
        self.assume(conds[first])
        return first

    def branch(self, cond, label=""):
        c = z3.simplify(cond)
        if z3.is_true(c):
            return True
        if z3.is_false(c):
            return False
        return self.choose([c, z3.Not(c)], label) == 0

    def memo(self, compute):
        """Result of a solver query that does not fork; replayed from the trace on later paths."""
        p = self.pos
        self.pos += 1
        if p < len(self.prefix):
            d = self.prefix[p]
            self.trace.append(d)
            return d[0]
        v = compute()
        self.trace.append([v, []])
        return v

    def must(self, cond):
        """Is cond implied by the path condition?"""
        c = z3.simplify(cond)
        if z3.is_true(c):
            return True
        if z3.is_false(c):
            return False
        return self.memo(lambda: (self._check(z3.Not(c)) == z3.unsat) or
                         (bool(self.lemmas) and self._prove_unsat(z3.Not(c), quick=True) == z3.unsat))

    def value_of(self, term):
        """Concrete python value of an Int term if the path condition determines it uniquely."""
        t = z3.simplify(term)
        if z3.is_int_value(t):
            return t.as_long()
        return self.memo(lambda: self._value_of(t))

    def _value_of(self, t):
        if self._check() != z3.sat:
            return None
        v = self.solver.model().eval(t, model_completion=True)
        if not z3.is_int_value(v):
            return None
        if self._check(t != v) == z3.unsat:
            return v.as_long()
        return None

    def possible_ints(self, term, cap=12):
        """Feasible concrete values of an Int term, without committing to one (None if more than cap)."""
        t = z3.simplify(term)
        if z3.is_int_value(t):
            return [t.as_long()]
        return self.memo(lambda: self._possible_ints(t, cap))

    def _possible_ints(self, t, cap):
        vals = []
        self.solver.push()
        try:
            while len(vals) <= cap:
                if self._check() != z3.sat:
                    break
                v = self.solver.model().eval(t, model_completion=True)
                if not z3.is_int_value(v):
                    return None
                vals.append(v.as_long())
                self.solver.add(t != v)
        finally:
            self.solver.pop()
        return None if len(vals) > cap else vals

    def enum_int(self, term, cap=12, label=""):
        """Case split over the feasible concrete values of an Int term (finite by the path condition)."""
        t = z3.simplify(term)
        if z3.is_int_value(t):
            return t.as_long()
        p = self.pos
        if p < len(self.prefix):
            # replay: value stored in the decision
            self.pos += 1
            d = self.prefix[p]
            self.trace.append(d)
            self.assume(t == z3.IntVal(d[0]))
            return d[0]
        vals = []
        self.solver.push()
        try:
            while len(vals) <= cap:
                if self._check() != z3.sat:
                    break
                v = self.solver.model().eval(t, model_completion=True)
                if not z3.is_int_value(v):
                    raise Unsupported("cannot enumerate %s" % t)
                vals.append(v.as_long())
                self.solver.add(t != v)
        finally:
            self.solver.pop()
        if len(vals) > cap:
            raise Unsupported("too many values for %s (%s)" % (label, t))
        self.pos += 1
        if not vals:
            self.trace.append([0, []])
            raise PathAbort("infeasible")
        self.trace.append([vals[0], vals[1:]])
        self.assume(t == z3.IntVal(vals[0]))
        return vals[0]

    def _explain(self, name, g):
        for i, part in enumerate(_conjuncts(g)):
            self.solver.push()
            self.solver.add(z3.Not(part))
            r = self._check()
            self.solver.pop()
            if r != z3.unsat:
                print("   [split] %s conjunct %d: %s -> %s" % (name.split("/")[-1], i, str(part)[:400].replace("\n", " "), r))

    def oblige(self, name, kind, goal, meta=None, detail=""):
        """Proof obligation: path condition implies goal.  Afterwards goal is assumed."""
        import time
        g = z3.simplify(goal) if not isinstance(goal, bool) else z3.BoolVal(goal)
        t0 = time.time()
        if z3.is_true(g):
            self.ex.record(name, kind, True, dt=0.0)
            return True
        # vacuity guard: is this path possible at all (quantifier-free path condition)?  An obligation all of whose
        # path VCs sit on impossible paths has not been checked at all (reported as undecided, see verify_contract).
        live = self._check() != z3.unsat
        cfalse = z3.is_false(g)
        if live and z3.is_and(g) and has_quantifier(g):
            # a goal mixing plain and quantified conjuncts: a plain conjunct that fails has a counter-model, which the
            # quantified part would only blur into `unknown`
            for part in g.children():
                if has_quantifier(part):
                    continue
                self.solver.push()
                for l in self.lemmas:
                    self.solver.add(l)
                self.solver.add(z3.Not(part))
                rp = self._check()
                if rp == z3.sat:
                    m = self.solver.model()
                    fail0 = Failure(name, kind, "violated", model_txt=_model_text(m), model=m, detail=detail,
                                    pc=list(self.pc), goal=part, meta=meta)
                    self.solver.pop()
                    self.ex.record(name, kind, False, fail0, dt=time.time() - t0, live=True, const_false=False)
                    self.assume(g)
                    return False
                self.solver.pop()
        self.solver.push()
        for l in self.lemmas:
            self.solver.add(l)
        self.solver.add(z3.Not(g))
        r = self._check() if live else z3.unsat
        fail = None
        if r == z3.sat:
            m = self.solver.model()
            fail = Failure(name, kind, "violated", model_txt=_model_text(m), model=m, detail=detail,
                           pc=list(self.pc), goal=g, meta=meta)
        elif r == z3.unsat and _os.environ.get("PYVC_CROSSCHECK") and not self.lemmas and \
                self.ex.by_backend.get("xc_total", 0) < int(_os.environ.get("PYVC_CROSSCHECK_MAX", "150")):
            # thorough tier: the same quantifier-free query on the second back end
            self.ex.by_backend["xc_total"] = self.ex.by_backend.get("xc_total", 0) + 1
            r2 = _cvc5_check(self.solver, 20000)
            if r2 == "unsat":
                self.ex.by_backend["xc_agree"] = self.ex.by_backend.get("xc_agree", 0) + 1
            elif r2 == "sat":
                self.ex.by_backend["xc_disagree"] = self.ex.by_backend.get("xc_disagree", 0) + 1
                fail = Failure(name, kind, "unknown", detail="back ends disagree: z3 unsat, cvc5 sat", pc=list(self.pc),
                               goal=g, meta=meta)
            else:
                self.ex.by_backend["xc_unknown"] = self.ex.by_backend.get("xc_unknown", 0) + 1
        elif r == z3.unknown:
            if _os.environ.get("PYVC_DUMP"):
                import re as _re
                with open(_os.path.join(_os.environ["PYVC_DUMP"], _re.sub(r"[^A-Za-z0-9_.-]", "_", name)[-120:] + ".smt2"), "w") as fh:
                    fh.write(self.solver.to_smt2())
            r2 = _cvc5_check(self.solver, self.ex.timeout_ms)
            if r2 == "unsat":
                self.ex.by_backend["cvc5"] = self.ex.by_backend.get("cvc5", 0) + 1
            else:
                fail = Failure(name, kind, "unknown", detail="z3: %s; cvc5: %s" % (self.solver.reason_unknown(), r2),
                               pc=list(self.pc), goal=g, meta=meta)
        self.solver.pop()
        if fail is not None and _os.environ.get("PYVC_SPLIT"):
            self._explain(name, g)
        self.ex.record(name, kind, fail is None, fail, dt=time.time() - t0, live=live, const_false=cfalse)
        if fail is not None and fail.status == "violated" and self._prove_unsat(g) == z3.unsat:
            # the goal is impossible on this path: nothing meaningful follows (the failure is recorded)
            raise PathAbort("path ends at failed obligation %s" % name)
        self.assume(g)
        return fail is None


import os as _os


def _conjuncts(g, pre=None):
    if z3.is_and(g):
        out = []
        for ch in g.children():
            out.extend(_conjuncts(ch, pre))
        return out
    if z3.is_implies(g):
        a, b = g.children()
        return _conjuncts(b, a if pre is None else z3.And(pre, a))
    if z3.is_or(g) and len(g.children()) == 2 and z3.is_not(g.children()[0]):
        a, b = g.children()
        na = a.children()[0]
        return _conjuncts(b, na if pre is None else z3.And(pre, na))
    return [g if pre is None else z3.Implies(pre, g)]


def _cvc5_check(solver, timeout_ms):
    """Second back end for queries z3 leaves open: the same assertions through SMT-LIB on cvc5."""
    import subprocess
    import tempfile
    try:
        txt = solver.to_smt2()
    except Exception as e:
        return "export-failed: %s" % e
    txt = "(set-logic ALL)\n" + txt
    with tempfile.NamedTemporaryFile("w", suffix=".smt2", delete=False) as f:
        f.write(txt)
        path = f.name
    try:
        p = subprocess.run(["/usr/bin/cvc5", "--strings-exp", "--tlimit=%d" % max(timeout_ms, 1000), path],
                           capture_output=True, text=True, timeout=timeout_ms / 1000.0 + 10)
        out = (p.stdout.strip().splitlines() or ["?"])[0]
        return out if out in ("sat", "unsat", "unknown") else "error: %s" % (p.stdout + p.stderr)[:200]
    except Exception as e:
        return "error: %s" % e
    finally:
        try:
            _os.remove(path)
        except OSError:
            pass


def has_quantifier(e, depth=6):
    """Quantifiers only occur in the boolean skeleton of specifications: descend through connectives only
    (never into terms such as store chains), to a small depth."""
    if z3.is_quantifier(e):
        return True
    if depth == 0 or not z3.is_app(e):
        return False
    k = e.decl().kind()
    if k in (z3.Z3_OP_AND, z3.Z3_OP_OR, z3.Z3_OP_NOT, z3.Z3_OP_IMPLIES, z3.Z3_OP_ITE, z3.Z3_OP_EQ, z3.Z3_OP_IFF):
        if k == z3.Z3_OP_EQ and not z3.is_bool(e.arg(0)):
            return False
        return any(has_quantifier(c, depth - 1) for c in e.children())
    return False


def _model_text(m):
    rows = []
    for d in m.decls():
        nm = d.name()
        try:
            rows.append("%s = %s" % (nm, m[d]))
        except Exception:
            pass
    rows.sort()
    txt = "\n".join(rows)
    return txt[:6000]


# ----------------------------------------------------------------------------- python-level objects
class PyObj:
    cid_name = "object"


class FuncObj(PyObj):
    cid_name = "function"

    def __init__(self, fi, closure=None, defaults_frame=None):
        self.fi = fi
        self.closure = closure


class BoundMethod(PyObj):
    cid_name = "method"

    def __init__(self, func, self_term, owner=None):
        self.func = func          # FuncObj | BuiltinFn | SymCallable
        self.self_term = self_term
        self.owner = owner


class ClassObj(PyObj):
    cid_name = "type"

    def __init__(self, cid, ci=None, closure=None, name=None):
        self.cid = cid
        self.ci = ci
        self.closure = closure
        self.name = name


class ModuleObj(PyObj):
    cid_name = "module"

    def __init__(self, dotted, internal):
        self.dotted = dotted
        self.internal = internal


class ExternObj(PyObj):
    """A name from an external library (function, constant, class) identified by dotted path."""
    cid_name = "function"

    def __init__(self, dotted):
        self.dotted = dotted


class BuiltinFn(PyObj):
    cid_name = "function"

    def __init__(self, name):
        self.name = name


class SymCallable(PyObj):
    """A callable parameter whose behaviour is given by a contract in the enclosing contract."""
    cid_name = "function"

    def __init__(self, label, spec):
        self.label = label
        self.spec = spec


class SuperObj(PyObj):
    def __init__(self, ci, self_term):
        self.ci = ci
        self.self_term = self_term


class LogEntry:
    def __init__(self, label, args, kwargs=None, result=None, site=None, raised=False):
        self.label = label
        self.args = args
        self.kwargs = kwargs or {}
        self.result = result
        self.site = site
        self.raised = raised

    def __repr__(self):
        return "<call %s(%s)>" % (self.label, ", ".join(str(a) for a in self.args))


class Frame:
    def __init__(self, fi, parent=None, lexical_class=None, module=None):
        self.fi = fi
        self.locals = {}
        self.parent = parent
        self.lexical_class = lexical_class
        self.module = module if module is not None else (fi.module if fi is not None else None)
        self.prefix = ""     # anchor prefix for inlined frames


class State:
    """Single-path mutable symbolic state."""

    def __init__(self, ctx, table):
        self.ctx = ctx
        self.table = table
        self.fields = {}
        self.llen = z3.Const("LLen0", z3.ArraySort(I, I))
        self.lel = z3.Const("LEl0", z3.ArraySort(I, ArrIV))
        self.dhas = z3.Const("DHas0", z3.ArraySort(I, ArrVB))
        self.dval = z3.Const("DVal0", z3.ArraySort(I, ArrVV))
        self.dlen = z3.Const("DLen0", z3.ArraySort(I, I))
        self.typeof = z3.Const("TypeOf0", z3.ArraySort(I, I))
        self.registry = {}
        self.next_id = ALLOC_BASE
        self.log = []
        self.writes = []        # (kind, ref term, name)
        self.ghost = {}
        self.fresh_refs = set()
        self.reg_class = {}
        self.alloc_class = {}
        self.escaped = set()      # refs allocated on this path that were handed to other code / stored somewhere
        self.heap_gen = 0         # bumped by havoc-all: names of not-yet-materialised field arrays
        self.globals_store = {}  # (module, name) -> term for mutable module globals / class attrs
        for ref, (cid, m) in table.enum_by_ref.items():
            ctx.assume(z3.Select(self.typeof, z3.IntVal(ref)) == z3.IntVal(cid))
            ctx.assume(z3.Select(self.field_arr("name"), z3.IntVal(ref)) == VStr(m))

    # -- snapshot for old()
    def snapshot(self):
        s = Snapshot()
        s.fields = dict(self.fields)
        s.llen, s.lel, s.dhas, s.dval, s.dlen, s.typeof = self.llen, self.lel, self.dhas, self.dval, self.dlen, self.typeof
        s.ghost = dict(self.ghost)
        s.globals_store = dict(self.globals_store)
        s.log_len = len(self.log)
        s.state = self
        s.heap_gen = self.heap_gen
        s.next_id = self.next_id
        return s

    def field_arr(self, name):
        a = self.fields.get(name)
        if a is None:
            a = z3.Const("F%d!%s" % (self.heap_gen, name), ArrIV)
            self.fields[name] = a
        return a

    def get_field(self, ref_int, name):
        return z3.Select(self.field_arr(name), ref_int)

    def mark_escaped(self, *vals):
        for v in vals:
            try:
                s_ = z3.simplify(v)
                if z3.is_app(s_) and s_.decl().name() == "VRef" and z3.is_int_value(s_.arg(0)):
                    self.escaped.add(s_.arg(0).as_long())
            except Exception:
                pass

    def set_field(self, ref_int, name, val):
        self.mark_escaped(val)
        self.fields[name] = z3.Store(self.field_arr(name), ref_int, val)
        self.writes.append(("field", ref_int, name))

    def alloc(self, cid, data=True):
        rid = self.next_id
        self.next_id += 1
        if data:
            self.n_data_alloc = getattr(self, "n_data_alloc", 0) + 1
        else:
            # registry objects (functions, bound methods, modules): class known in Python, no heap entry
            self.reg_class[rid] = cid
            return rid
        self.fresh_refs.add(rid)
        if isinstance(cid, int):
            self.alloc_class[rid] = cid
        self.typeof = z3.Store(self.typeof, z3.IntVal(rid), z3.IntVal(cid) if isinstance(cid, int) else cid)
        return rid

    def reserve_region(self, size=1_000_000):
        """A block of references for the (unboundedly many) objects a contracted callee or an abstracted loop
        creates: nothing allocated before or afterwards lies in it."""
        lo = self.next_id
        self.next_id += size
        return lo, self.next_id

    def register(self, obj):
        rid = self.alloc(self.table.id(obj.cid_name), data=False)
        self.registry[rid] = obj
        return VRef(rid)

    def new_list(self, items, cid_name="list"):
        rid = self.alloc(self.table.id(cid_name))
        arr = z3.K(I, VNone)
        self.mark_escaped(*items)
        for i, it in enumerate(items):
            arr = z3.Store(arr, z3.IntVal(i), it)
        self.lel = z3.Store(self.lel, z3.IntVal(rid), arr)
        self.llen = z3.Store(self.llen, z3.IntVal(rid), z3.IntVal(len(items)))
        return VRef(rid)

    def new_list_arr(self, arr, length, cid_name="list"):
        rid = self.alloc(self.table.id(cid_name))
        self.lel = z3.Store(self.lel, z3.IntVal(rid), arr)
        self.llen = z3.Store(self.llen, z3.IntVal(rid), length)
        return VRef(rid)

    def new_dict(self, pairs=(), cid_name="dict"):
        rid = self.alloc(self.table.id(cid_name))
        has = z3.K(Val, z3.BoolVal(False))
        val = z3.K(Val, VNone)
        n = z3.IntVal(0)
        for k, v in pairs:
            self.mark_escaped(k, v)
            n = z3.If(z3.Select(has, k), n, n + 1)
            has = z3.Store(has, k, z3.BoolVal(True))
            val = z3.Store(val, k, v)
        r = z3.IntVal(rid)
        self.dhas = z3.Store(self.dhas, r, has)
        self.dval = z3.Store(self.dval, r, val)
        self.dlen = z3.Store(self.dlen, r, z3.simplify(n))
        return VRef(rid)

    def type_of_val(self, v):
        t = self.table
        return z3.If(Val.is_VNone(v), z3.IntVal(t.id("NoneType")),
               z3.If(Val.is_VBool(v), z3.IntVal(t.id("bool")),
               z3.If(Val.is_VInt(v), z3.IntVal(t.id("int")),
               z3.If(Val.is_VStr(v), z3.IntVal(t.id("str")),
               z3.If(Val.is_VFloat(v), z3.IntVal(t.id("float")),
                     z3.Select(self.typeof, Val.r(v)))))))


class Snapshot:
    def field_arr(self, name):
        a = self.fields.get(name)
        if a is None:
            a = z3.Const("F%d!%s" % (self.heap_gen, name), ArrIV)
            self.fields[name] = a
        return a
