"""Attribute access, calls (by contract / inlined accessor), instantiation."""
import ast
import fnmatch
import z3
from .core import (tkey, Val, VNone, VTrue, VFalse, VInt, VStr, VBool, VRef, VFloat, I, B, S, ArrIV, ClassName, IsSub, StrOf,
                   TYPEBASE, HOST_CLASS_BASE, Unsupported, PathAbort, FuncObj, BoundMethod, ClassObj, ModuleObj,
                   ExternObj, BuiltinFn, SymCallable, SuperObj, Frame, LogEntry)
from .front import mangle
from .interp_base import PyRaise, ReturnEx, BreakEx, ContinueEx

STR_METHODS = {"startswith", "endswith", "lower", "upper", "strip", "split", "rsplit", "format", "join", "encode",
               "decode", "replace", "lstrip", "rstrip", "find", "isdigit", "hex"}
LIST_METHODS = {"append", "extend", "pop", "copy", "insert", "remove", "clear", "sort", "index", "count",
                "popleft", "appendleft"}
DICT_METHODS = {"get", "keys", "values", "items", "update", "pop", "copy", "setdefault", "clear", "popitem"}
EXTERN_FIELDS = {"Thread": {"ident", "name", "daemon"}, "UUID": {"hex"}}
EXTERN_OBJECT_CLASSES = {"Lock", "Future", "Thread", "Event", "ThreadPoolExecutor", "proto", "UUID", "Formatter",
                         "dict_keys", "dict_items", "dict_values", "OrderedDict"}
FRAME_FIELDS = {"f_code", "f_lineno", "f_locals", "f_back", "f_globals", "co_filename", "co_name", "co_firstlineno"}


def is_accessor(fi):
    """Property getter / method whose body (after the docstring) is `return self.<attr>` or `return <const>`."""
    body = [s for s in fi.node.body if not (isinstance(s, ast.Expr) and isinstance(s.value, ast.Constant))]
    if len(body) != 1 or not isinstance(body[0], ast.Return):
        return False
    v = body[0].value
    if v is None or isinstance(v, ast.Constant):
        return True
    if isinstance(v, ast.UnaryOp) and isinstance(v.operand, ast.Constant):
        return True
    if isinstance(v, ast.Attribute) and isinstance(v.value, ast.Name) and fi.node.args.args and \
            v.value.id == fi.node.args.args[0].arg:
        return True
    return False


class CallMixin:
    # ------------------------------------------------------------------ attribute read
    def e_Attribute(self, e):
        obj = self.eval(e.value)
        return self.getattr_(obj, e.attr, e)

    def getattr_(self, obj, attr, node, default=None):
        fr = self.frame
        name = mangle(attr, fr.lexical_class.name if (fr.lexical_class is not None) else None)
        t = self.tag(obj, "getattr")
        if t != "ref" and attr == "__class__":
            tt = z3.simplify(z3.IntVal(TYPEBASE) + self.st.type_of_val(obj))
            self.st.ghost.setdefault("type_terms", []).append(tt)
            return VRef(tt)
        if t == "str":
            if attr in STR_METHODS:
                return self.st.register(BoundMethod(BuiltinFn("str." + attr), obj))
            return self._attr_error(node, default)
        if t == "int" and attr in ("to_bytes", "bit_length"):
            return self.st.register(BoundMethod(BuiltinFn("int." + attr), obj))
        if t != "ref":
            if attr == "__class__":
                return VRef(z3.simplify(z3.IntVal(TYPEBASE) + self.st.type_of_val(obj)))
            return self._attr_error(node, default)
        ob = self.pyobj(obj)
        if ob is not None:
            return self.getattr_pyobj(ob, obj, attr, name, node, default)
        self.touch_object(obj)
        # class objects of symbolic class id (type(v) results)
        rint = z3.simplify(Val.r(obj))
        if any(rint.eq(x) for x in self.st.ghost.get("type_terms", ())) or \
                (not z3.is_const(rint) and not z3.is_select(rint) and self.ctx.must(rint >= TYPEBASE)):
            if attr == "__name__":
                return Val.VStr(ClassName(rint - TYPEBASE))
            raise Unsupported("attribute %s of a symbolic class object" % attr)
        cands = self.class_candidates(obj)
        if cands is not None and len(cands) > 1 and all(k in self.table.info for k in cands):
            # several agent classes possible: no case split if the attribute resolves identically in all
            res = [self._resolve_kind(self.table.info[k], attr, name) for k in cands]
            if all(r == res[0] for r in res) and res[0] is not None:
                cid = cands[0]
            else:
                cid = self.class_of(obj, "getattr-class")
        else:
            cid = self.class_of(obj, "getattr-class")
        if self.is_host_class(cid):
            if attr == "__class__":
                tt = z3.simplify(z3.IntVal(TYPEBASE) + z3.Select(self.st.typeof, Val.r(obj)))
                self.st.ghost.setdefault("type_terms", []).append(tt)
                return VRef(tt)
            hm = self.st.ghost.get("host_methods", {}).get(attr)
            if hm is not None:
                return self.st.register(BoundMethod(hm, obj))
            hf = self.st.ghost.get("host_fields", {}).get(attr)
            if hf is not None:
                # a plain data attribute of the documented plugin interface: reading it runs no plugin code
                res = self.hostfn("getattr_" + attr, "res")(obj)
                self.assume_shape(res, hf)
                return res
            if attr in ("decode", "hex") and self.ctx.must(
                    z3.Select(self.st.typeof, Val.r(obj)) == self.table.id("bytes")):
                return self.st.register(BoundMethod(BuiltinFn("bytes." + attr), obj))
            res = self.host_op("getattr_" + attr, obj, node)
            if attr == "__dict__":
                # trusted: an instance's attribute dictionary, when it exists, is an exact dict owned by the host
                self.ctx.assume(z3.And(Val.is_VRef(res), z3.Select(self.st.typeof, Val.r(res)) == self.table.id("dict"),
                                       self.dlen(Val.r(res)) >= 0))
                self.st.ghost.setdefault("host_owned", []).append(res)
            return res
        nm = self.table.names[cid]
        if attr == "__class__":
            return self.class_term(cid)
        if nm in ("frame", "code"):
            if attr in FRAME_FIELDS:
                return self.frame_field(obj, attr)
            raise Unsupported("frame attribute %s" % attr)
        if nm in ("list", "tuple", "deque", "set", "frozenset"):
            if attr in LIST_METHODS:
                return self.st.register(BoundMethod(BuiltinFn("list." + attr), obj))
            return self._attr_error(node, default)
        if nm == "bytes" and attr in ("hex", "decode"):
            return self.st.register(BoundMethod(BuiltinFn("bytes." + attr), obj))
        if nm in ("dict",):
            if attr in DICT_METHODS:
                return self.st.register(BoundMethod(BuiltinFn("dict." + attr), obj))
            return self._attr_error(node, default)
        if nm == "OrderedDict" and attr in ("keys", "values"):
            return self.st.register(BoundMethod(BuiltinFn("dict." + attr), obj))
        ci = self.table.info.get(cid)
        if ci is not None:
            from .contract import CLASS_INVARIANTS
            if ci.name in CLASS_INVARIANTS and not self.st.ghost.get("_constructing", {}).get(str(obj)):
                # visible-state semantics: every existing object of a class satisfies the class invariant
                self.assume_invariant(ci.name, obj)
        if ci is None:
            # extern object classes (Lock, Future, Thread, Event, proto ...)
            if attr in EXTERN_FIELDS.get(nm, ()):
                return self.st.get_field(Val.r(obj), attr)
            if nm == "proto" and attr not in ("send", "poll", "WhichOneof", "Name", "Value"):
                v = self.st.get_field(Val.r(obj), attr)       # protobuf message field (typed record, trusted)
                if attr in ("ID", "path", "current_hash", "name", "expression", "namespace", "help", "unit", "key"):
                    self.ctx.assume(Val.is_VStr(v))
                elif attr in ("line_number", "ts_nanos", "type", "response_type"):
                    self.ctx.assume(Val.is_VInt(v))
                elif attr in ("args",):
                    self.ctx.assume(z3.And(Val.is_VRef(v), z3.Select(self.st.typeof, Val.r(v)) == self.table.id("proto")))
                elif attr in ("watches", "metrics", "response", "labelExpressions"):
                    self.ctx.assume(z3.And(Val.is_VRef(v), z3.Select(self.st.typeof, Val.r(v)) == self.table.id("list"),
                                           Val.r(v) > 0, Val.r(v) < self.st.next_id, self.llen(Val.r(v)) >= 0))
                return v
            if nm in EXTERN_OBJECT_CLASSES:
                return self.st.register(BoundMethod(BuiltinFn("%s.%s" % (nm, attr)), obj))
            return self._attr_error(node, default)
        if attr == "__dict__":
            return self.instance_dict(obj, ci, node)
        mem = self.index.lookup_member(ci, attr)
        if mem is not None and mem[0] == "property":
            getter = mem[1].get("get")
            return self.call_function(getter, None, [obj], {}, node, anchor=self.anchor(node))
        fields = self.index.instance_fields(ci)
        if name in fields or (mem is None and attr in self._extern_fields(ci)):
            v = self.st.get_field(Val.r(obj), name)
            srt = self.index.field_const_sort(ci, name)
            if srt is not None:
                # inferred field invariant: only constants of one type are ever assigned to this field
                self.ctx.assume({"bool": Val.is_VBool(v), "int": Val.is_VInt(v), "str": Val.is_VStr(v)}[srt])
            return v
        if mem is not None:
            if mem[0] == "method":
                fi = mem[1]
                decos = mem[2].decorators.get(attr, set())
                fo = self.st.register(FuncObj(fi, self.closure_for_class(cid)))
                if "staticmethod" in decos:
                    return fo
                if "classmethod" in decos:
                    return self.st.register(BoundMethod(self.pyobj(fo), self.class_term(cid)))
                # one object per (function, receiver): `x.m is x.m` holds in the model, as `==` does in Python
                return self.st_register_cached(("bound", fi.key, tkey(obj)),
                                               lambda: BoundMethod(self.pyobj(fo), obj))
            if mem[0] == "classattr":
                key = ("cls:%d" % mem[2].cid, name)
                if key in self.st.globals_store:
                    return self.st.globals_store[key]
                return self.class_attr_value(mem[2], attr, mem[1])
            if mem[0] == "nestedclass":
                return self.class_term(mem[1].cid)
        # special: __getattribute__ override (ConfigService) handled by contract on the class
        ga = self.index.lookup_member(ci, "__getattribute__")
        if ga is not None and ga[0] == "method":
            return self.call_function(ga[1], None, [obj, VStr(attr)], {}, node, anchor=self.anchor(node))
        # inherited from extern bases (e.g. MutableMapping.get / items, string.Formatter.vformat)
        ext = self.index.extern_bases(ci)
        for b in ext:
            bn = b.split(".")[-1]
            if bn in ("ABC", "Generic", "object"):
                continue
            return self.st.register(BoundMethod(BuiltinFn("%s.%s" % (bn, attr)), obj))
        return self._attr_error(node, default)

    def _resolve_kind(self, ci, attr, name):
        if attr in ("__class__", "__dict__"):
            return None
        mem = self.index.lookup_member(ci, attr)
        if mem is not None and mem[0] == "property":
            return ("property", id(mem[1].get("get")))
        if name in self.index.instance_fields(ci):
            return ("field", name)
        if mem is not None and mem[0] in ("method",):
            return ("method", id(mem[1]))
        return None

    def _extern_fields(self, ci):
        return set()

    def _attr_error(self, node, default):
        if default is not None:
            return default
        self.raise_("AttributeError", self.anchor(node))

    def closure_for_class(self, cid):
        ob = self.st.registry.get(TYPEBASE + cid)
        return ob.closure if ob is not None else None

    def class_attr_value(self, ci, attr, expr):
        key = ("cls:%d" % ci.cid, mangle(attr, ci.name))
        if key in self.st.globals_store:
            return self.st.globals_store[key]
        fr = Frame(None, None, ci, module=ci.module)
        self.frames.append(fr)
        try:
            v = self.eval(expr)
        finally:
            self.frames.pop()
        if isinstance(expr, (ast.Dict, ast.List, ast.Set, ast.Call)):
            # mutable class attribute: one shared object
            self.st.globals_store[key] = v
        return v

    def frame_field(self, obj, attr):
        v = self.st.get_field(Val.r(obj), attr)
        t = self.table
        # trusted shape of genuine frame / code objects
        if attr == "f_lineno" or attr == "co_firstlineno":
            self.ctx.assume(z3.And(Val.is_VInt(v), Val.i(v) >= 0))
        elif attr in ("co_filename", "co_name"):
            self.ctx.assume(Val.is_VStr(v))
        elif attr == "f_code":
            self.ctx.assume(z3.And(Val.is_VRef(v), z3.Select(self.st.typeof, Val.r(v)) == t.id("code"),
                                   Val.r(v) > 0, Val.r(v) < 1_000_000))
        elif attr in ("f_locals", "f_globals"):
            self.ctx.assume(z3.And(Val.is_VRef(v), z3.Select(self.st.typeof, Val.r(v)) == t.id("dict"),
                                   Val.r(v) > 0, Val.r(v) < 1_000_000, self.dlen(Val.r(v)) >= 0))
            self.st.ghost.setdefault("host_owned", [])
            if not any(h.eq(v) for h in self.st.ghost["host_owned"]):
                self.st.ghost["host_owned"].append(v)
                for ad in self.st.ghost.get("agent_dicts", []):
                    self.ctx.assume(v != ad)       # a frame's own dictionaries are never the agent's tables
        elif attr == "f_back":
            self.ctx.assume(z3.Or(Val.is_VNone(v), z3.And(Val.is_VRef(v), Val.r(v) > 0, Val.r(v) < 1_000_000,
                                                          z3.Select(self.st.typeof, Val.r(v)) == t.id("frame"))))
        return v

    def instance_dict(self, obj, ci, node):
        raise Unsupported("__dict__ of agent object")

    def getattr_pyobj(self, ob, obj, attr, name, node, default):
        if isinstance(ob, ModuleObj):
            v = self.lookup_global_in(ob.dotted, attr)
            if v is None:
                return self._attr_error(node, default)
            return v
        if isinstance(ob, ExternObj):
            return self.extern_value(ob.dotted + "." + attr)
        if isinstance(ob, ClassObj):
            if attr == "__name__":
                return VStr(ob.name or self.table.names[ob.cid])
            if ob.ci is None:
                nm = self.table.names[ob.cid]
                return self.st.register(BuiltinFn("%s.%s" % (nm, attr)))
            mem = self.index.lookup_member(ob.ci, attr)
            if mem is None:
                return self._attr_error(node, default)
            if mem[0] == "method":
                decos = mem[2].decorators.get(attr, set())
                fo = FuncObj(mem[1], ob.closure)
                if "classmethod" in decos:
                    return self.st.register(BoundMethod(fo, obj))
                return self.st.register(fo)
            if mem[0] == "classattr":
                if self._is_enum(mem[2]):
                    return self.enum_member(mem[2], attr)
                return self.class_attr_value(mem[2], attr, mem[1])
            if mem[0] == "nestedclass":
                return self.class_term(mem[1].cid)
            raise Unsupported("class attribute kind %s" % mem[0])
        if isinstance(ob, SuperObj):
            mro = self.index.mro(self.table.info[self.class_of(ob.self_term)]) if False else None
            start = ob.ci
            cls_of_self = self.table.info.get(self.class_of(ob.self_term, "super-self"))
            order = self.index.mro(cls_of_self)
            idx = order.index(start)
            for c in order[idx + 1:]:
                if attr in c.methods:
                    return self.st.register(BoundMethod(FuncObj(c.methods[attr], self.closure_for_class(c.cid)), ob.self_term))
            return self.st.register(BoundMethod(BuiltinFn("object." + attr), ob.self_term))
        if isinstance(ob, (FuncObj, BoundMethod, BuiltinFn)):
            if attr == "__name__":
                fn = ob.fi.name if isinstance(ob, FuncObj) else getattr(ob, "name", "?")
                return VStr(fn)
            if isinstance(ob, BoundMethod) and attr == "__self__":
                return ob.self_term
        raise Unsupported("attribute %s of %s" % (attr, type(ob).__name__))

    def _is_enum(self, ci):
        return any(x.split(".")[-1] == "Enum" for x in self.index.extern_bases(ci))

    def enum_member(self, ci, attr):
        """Enum members are singletons with fixed refs (see ClassTable.enum_refs)."""
        return VRef(self.table.enum_refs[(ci.cid, attr)])

    # ------------------------------------------------------------------ calls
    def e_Call(self, e):
        if isinstance(e.func, ast.Name) and e.func.id == "super" and not e.args:
            fr = self.frame
            selfname = fr.fi.node.args.args[0].arg
            return self.st.register(SuperObj(fr.lexical_class, self.lookup_name(selfname)))
        fv = self.eval(e.func)
        args = []
        for a in e.args:
            if isinstance(a, ast.Starred):
                v = self.eval(a.value)
                n = self.ctx.value_of(self.llen(Val.r(v)))
                if n is None:
                    # unknown number of extra arguments: handed on as one (marked) tuple
                    self.st.ghost.setdefault("starred_terms", []).append(v)
                    args.append(v)
                    continue
                args.extend(self.list_get(Val.r(v), z3.IntVal(i)) for i in range(n))
            else:
                args.append(self.eval(a))
        kwargs = {}
        for k in e.keywords:
            if k.arg is None:
                v = self.eval(k.value)
                if self.ctx.must(self.dlen(Val.r(v)) == 0):
                    continue
                raise Unsupported("**kwargs")
            kwargs[k.arg] = self.eval(k.value)
        return self.call_value(fv, args, kwargs, e)

    def call_value(self, fv, args, kwargs, node, anchor=None):
        anchor = anchor or self.anchor(node)
        t = self.tag(fv, "callee")
        if t != "ref":
            self.raise_("TypeError", anchor)
        ob = self.pyobj(fv)
        if ob is None:
            sc = self.st.ghost.get("sym_callables", {}).get(tkey(fv))
            if sc is None:
                ob = self.pyobj(fv, deep=True)
        if ob is None:
            if sc is not None:
                return self.call_symbolic(sc, args, kwargs, node, anchor)
            cid = self.class_of(fv, "callee-class")
            if self.is_host_class(cid):
                return self.host_op("call", fv, node)
            ci = self.table.info.get(cid)
            if ci is not None:
                mem = self.index.lookup_member(ci, "__call__")
                if mem:
                    return self.call_function(mem[1], None, [fv] + args, kwargs, node, anchor)
            if self.not_agent_object(fv):
                return self.host_op("call", fv, node)      # a host-owned callable (function, builtin, ...)
            raise Unsupported("call of non-concrete callable %s" % fv)
        if isinstance(ob, FuncObj):
            return self.call_function(ob.fi, ob.closure, args, kwargs, node, anchor)
        if isinstance(ob, BoundMethod):
            f = ob.func
            if isinstance(f, FuncObj):
                return self.call_function(f.fi, f.closure, [ob.self_term] + args, kwargs, node, anchor)
            if isinstance(f, BuiltinFn):
                return self.call_builtin(f.name, [ob.self_term] + args, kwargs, node, anchor)
            if isinstance(f, SymCallable):
                return self.call_symbolic(f, [ob.self_term] + args, kwargs, node, anchor)
        if isinstance(ob, ClassObj):
            return self.instantiate(ob, args, kwargs, node, anchor)
        if isinstance(ob, BuiltinFn):
            return self.call_builtin(ob.name, args, kwargs, node, anchor)
        if isinstance(ob, ExternObj):
            return self.call_builtin(ob.dotted, args, kwargs, node, anchor)
        if isinstance(ob, SymCallable):
            return self.call_symbolic(ob, args, kwargs, node, anchor)
        raise Unsupported("call of %s" % type(ob).__name__)

    def bind_params(self, fi, args, kwargs, node, anchor):
        a = fi.node.args
        names = [x.arg for x in a.posonlyargs + a.args]
        bound = {}
        args = list(args)
        if len(args) > len(names) and a.vararg is None:
            self.raise_("TypeError", anchor)
        for nm, v in zip(names, args):
            bound[nm] = v
        rest = args[len(names):]
        if a.vararg is not None:
            bound[a.vararg.arg] = self.st.new_list(rest, "tuple")
        extra_kw = {}
        for k, v in kwargs.items():
            if k in names or k in [x.arg for x in a.kwonlyargs]:
                if k in bound:
                    self.raise_("TypeError", anchor)
                bound[k] = v
            elif a.kwarg is not None:
                extra_kw[k] = v
            else:
                self.raise_("TypeError", anchor)
        if a.kwarg is not None:
            bound[a.kwarg.arg] = self.st.new_dict([(VStr(k), v) for k, v in extra_kw.items()])
        # defaults
        defaults = a.defaults
        for i, nm in enumerate(names):
            if nm not in bound:
                di = i - (len(names) - len(defaults))
                if di < 0:
                    self.raise_("TypeError", anchor)
                bound[nm] = self.eval_default(fi, defaults[di])
        for x, d in zip(a.kwonlyargs, a.kw_defaults):
            if x.arg not in bound:
                if d is None:
                    self.raise_("TypeError", anchor)
                bound[x.arg] = self.eval_default(fi, d)
        return bound

    def eval_default(self, fi, expr):
        if isinstance(expr, (ast.Dict, ast.List, ast.Set, ast.ListComp, ast.DictComp, ast.SetComp)):
            # a mutable default is created once, when the function is defined, and shared by every call: at any given
            # call it is an already existing container holding whatever earlier calls left in it
            cache = self.st.ghost.setdefault("_mutable_defaults", {})
            key = (fi.key, ast.dump(expr), getattr(expr, "lineno", 0), getattr(expr, "col_offset", 0))
            if key not in cache:
                from .contract import DICT, LIST
                p = DICT() if isinstance(expr, (ast.Dict, ast.DictComp)) else LIST()
                cache[key] = self.make_param("shared_default", p)
            return cache[key]
        fr = Frame(None, None, fi.cls, module=fi.module)
        self.frames.append(fr)
        try:
            return self.eval(expr)
        finally:
            self.frames.pop()

    def can_inline(self, fi, closure):
        if getattr(fi.node, "is_lambda", False):
            return True
        if self.top is not None:
            # functions / local-class methods defined inside the function under verification
            p = fi.parent
            while p is not None:
                if p.key == self.top.key or self._inline_listed(p.key):
                    return True
                p = getattr(p, "parent", None)
            if self._inline_listed(fi.key):
                return True
        if is_accessor(fi):
            return True
        # a repo function with no contract of its own is executed in place (recorded as inlined,
        # i.e. verified as part of its caller, not modularly); keeps "extract helper" refactors decidable
        return getattr(self.top, "inline_uncontracted", True)

    def _inline_listed(self, key):
        for pat in (self.top.inline if self.top is not None else ()):
            if key == pat or fnmatch.fnmatchcase(key, pat):
                return True
        return False

    def call_function(self, fi, closure, args, kwargs, node, anchor=None):
        anchor = anchor or (self.anchor(node) if node is not None else "call")
        if fi.module.name == "deep.logging" and fi.name != "init":
            # the agent's logging facade: trusted like stdlib logging (no effect, never raises)
            self.used_trusted.add("deep.logging." + fi.name)
            self.st.log.append(LogEntry("deep.logging." + fi.name, list(args), kwargs, site=anchor))
            return VNone
        c = self.contracts.get(fi.key)
        bound = self.bind_params(fi, args, kwargs, node, anchor)
        if c is not None and not (self.top is not None and c is self.top and not self.frames_has_top()):
            return self.apply_contract(c, fi, bound, node, anchor)
        if not self.can_inline(fi, closure):
            raise Unsupported("call to %s: no contract and not inlinable" % fi.key)
        return self.inline_call(fi, closure, bound, anchor)

    def frames_has_top(self):
        return True

    def inline_call(self, fi, closure, bound, anchor):
        if self.depth > 14:
            raise Unsupported("inline depth exceeded at %s" % fi.key)
        self.inlined.add(fi.key)
        fr = Frame(fi, closure, fi.cls, module=fi.module)
        cur = self.frames[-1] if self.frames else None
        base_prefix = cur.prefix if cur is not None else ""
        fr.prefix = "%s%s>" % (base_prefix, anchor[len(base_prefix):] if anchor.startswith(base_prefix) else anchor)
        if fi.cls is None and fi.parent is not None and closure is not None:
            fr.lexical_class = closure.lexical_class if fi.cls is None else fi.cls
        fr.locals.update(bound)
        self.frames.append(fr)
        self.depth += 1
        is_gen = any(isinstance(n, (ast.Yield, ast.YieldFrom)) for n in ast.walk(fi.node)
                     if not isinstance(n, (ast.FunctionDef, ast.Lambda)) or n is fi.node)
        if is_gen:
            self.st.ghost.setdefault("yields", []).append([])
        try:
            try:
                self.exec_block(fi.node.body)
                ret = VNone
            except ReturnEx as r:
                ret = r.value
            if is_gen:
                return self.generator_result(self.st.ghost["yields"][-1])
            return ret
        finally:
            if is_gen:
                self.st.ghost["yields"].pop()
            self.depth -= 1
            self.frames.pop()

    def generator_result(self, ys):
        """The values a generator yields, as a list (generators are consumed eagerly: the interleaving of producer and
        consumer is not modelled).  When the generator's loop was verified for an arbitrary iteration the overall
        sequence is abstract: some list (its elements typed by the contract's result sort, when declared)."""
        if id(ys) in self.st.ghost.get("yields_abstract", ()):
            arr = self.ctx.fresh("gen_items", ArrIV)
            n = self.ctx.fresh("gen_n", I)
            self.ctx.assume(n >= 0)
            return self.st.new_list_arr(arr, n, "list")
        return self.st.new_list(ys, "list")

    def call_symbolic(self, sc, args, kwargs, node, anchor):
        self.st.mark_escaped(*args)
        return sc.spec(self, sc, args, kwargs, node, anchor)

    # ------------------------------------------------------------------ instantiation
    def instantiate(self, cls, args, kwargs, node, anchor=None):
        anchor = anchor or (self.anchor(node) if node is not None else "new")
        cid = cls.cid
        ci = cls.ci if cls.ci is not None else self.table.info.get(cid)
        if ci is None:
            return self.call_builtin("new." + self.table.names[cid], args, kwargs, node, anchor)
        # abstract classes cannot be instantiated; not needed here
        rid = self.st.alloc(cid)
        obj = VRef(rid)
        self.st.ghost.setdefault("_constructing", {})[str(obj)] = True
        if cls.closure is not None:
            self.st.registry.setdefault(TYPEBASE + cid, cls)
        init = self.index.lookup_member(ci, "__init__")
        if init is not None and init[0] == "method":
            fo_closure = self.closure_for_class(init[2].cid) or cls.closure
            self.call_function(init[1], fo_closure, [obj] + list(args), kwargs, node, anchor)
            self.st.ghost["_constructing"][str(obj)] = False
            self.st.ghost.setdefault("_obj_bounds", {})[str(obj)] = self.st.next_id
            from .contract import CLASS_INVARIANTS
            if ci.name in CLASS_INVARIANTS:
                # constructed objects satisfy their class invariant in later visible states
                objs = self.st.ghost.setdefault("_inv_objs", [])
                objs.append(((ci.name, str(obj)), (ci.name, obj, None)))
        else:
            ext = [b.split(".")[-1] for b in self.index.extern_bases(ci)]
            if "dict" in ext:
                # dict subclass (FormatDict): initialise the mapping part
                src = args[0] if args else None
                r = z3.IntVal(rid)
                if src is not None:
                    sr = Val.r(src)
                    self.st.dhas = z3.Store(self.st.dhas, r, z3.Select(self.st.dhas, sr))
                    self.st.dval = z3.Store(self.st.dval, r, z3.Select(self.st.dval, sr))
                    self.st.dlen = z3.Store(self.st.dlen, r, self.dlen(sr))
            elif args or kwargs:
                if not any(e in ("Exception", "BaseException") for e in ext):
                    self.raise_("TypeError", anchor)
                self.st.set_field(z3.IntVal(rid), "args", self.st.new_list(list(args), "tuple"))
        return obj
