"""Contract language (sidecar specs live in /verif/specs/*.py and register contracts here)."""
import z3
from .core import (tkey, Val, VNone, VTrue, VFalse, VInt, VStr, VBool, VRef, VFloat, I, B, S, R, ArrIV, ClassName, IsSub,
                   StrOf, IntOk, IntOf, Lower, Strip, Basename, IdStr, TYPEBASE, Unsupported, SymCallable)
from .front import mangle

REGISTRY = {}          # key -> Contract
CLASS_INVARIANTS = {}  # class name -> fn(S, ref_val) -> Bool


class Clause:
    def __init__(self, label, fn, props=None):
        self.label = label
        self.fn = fn
        self.props = props


class Signal:
    def __init__(self, exc, label, cond=None, post=None, props=None, exact=False):
        self.exc = exc        # class name
        self.label = label
        self.cond = cond      # fn(S) -> Bool over the pre-state; None = always allowed
        self.post = post      # fn(S) -> Bool over the state at the raise
        self.props = props
        self.exact = exact


class LoopSpec:
    def __init__(self, invariant=None, modifies=None, variant=None, body_ensures=None, modifies_kind=None,
                 body_no_raise=False, props=None):
        self.invariant = invariant
        self.modifies = modifies
        self.variant = variant
        self.body_ensures = body_ensures
        self.modifies_kind = modifies_kind     # None (syntactic) | 'none'
        self.body_no_raise = body_no_raise     # an iteration must not end by an exception
        self.props = props


class P:
    """Parameter sort descriptors."""

    def __init__(self, kind, cls=None, inv=True, elem=None, nullable=False, spec=None, exact=True, subclasses=None):
        self.kind = kind
        self.cls = cls
        self.inv = inv
        self.elem = elem
        self.nullable = nullable
        self.spec = spec
        self.exact = exact
        self.subclasses = subclasses


ANY = P("any")             # arbitrary Python value owned by the host program
HOSTOBJ = P("hostobj")     # an instance of a class the agent knows nothing about (plugin, user object)
VAL = P("val")             # any value at all (no ownership assumption)
INT = P("int")
STR = P("str")
BOOL = P("bool")
NONE = P("none")
FLOAT = P("float")
ATTRVAL = P("attrval")     # value of an attribute store: a primitive or a builtin list / tuple (declared dict value typing)


def OBJ(cls, inv=True, nullable=False, subclasses=None):
    return P("obj", cls=cls, inv=inv, nullable=nullable, subclasses=subclasses)


def FRESH(cls, nullable=False):
    """Result is an object allocated by the callee."""
    return P("fresh", cls=cls, nullable=nullable)


def LIST(elem=None, nullable=False):
    return P("list", elem=elem, nullable=nullable)


def SEQ():
    """A builtin list, tuple, set or frozenset (exact type)."""
    return P("seq")


def TUPLE(*elems):
    return P("tuple", elem=list(elems))


def DICT(elem=None, nullable=False):
    return P("dict", elem=elem, nullable=nullable)


def STRDICT():
    return P("strdict")


def OPT(p):
    q = P(p.kind, p.cls, p.inv, p.elem, True, p.spec, p.exact, p.subclasses)
    return q


def CALLABLE(spec):
    return P("callable", spec=spec)


def FRAME():
    return P("frame")


class Contract:
    def __init__(self, file, qual, props):
        self.file = file
        self.qual = qual
        self.key = "%s:%s" % (file, qual)
        self.props = list(props)
        self.params = {}
        self.requires = []
        self.ensures = []
        self.signals = []
        self.any_exception = None     # Signal for "may raise anything" (trusted callees)
        self.modifies = None          # fn(S) -> list of havoc items
        self.result = ANY
        self.loop_specs = {}
        self.inline = []
        self.trusted = False
        self.logged = None
        self.notes = []
        self.init_ghost = None        # fn(S) run before the body (sets ghost state)
        self.exit_checks = []         # fn(S, exit_kind) -> list[(label, kind, goal, props)]
        self.frame_exempt = []        # field names exempt from FRAME tracking
        self.canary = None
        self.sig_props = None
        self.frame_props = None
        self.max_paths = None
        self.host_ops_exc_base = "BaseException"

    # fluent helpers
    def param(self, name, p):
        self.params[name] = p
        return self

    def req(self, label, fn, new_object_fact=False):
        """new_object_fact: a statement about the initial state of the object an __init__ is constructing (e.g. "it has no
        such attribute yet").  It is true of every newly allocated object by the language semantics, so at a call (which
        only happens through instantiation) it is assumed, not proved."""
        cl = Clause(label, fn)
        cl.new_object_fact = new_object_fact
        self.requires.append(cl)
        return self

    def ens(self, label, fn, props=None):
        self.ensures.append(Clause(label, fn, props))
        return self

    def sig(self, exc, label, cond=None, post=None, props=None):
        self.signals.append(Signal(exc, label, cond, post, props))
        return self

    def loop(self, anchor, **kw):
        self.loop_specs[anchor] = LoopSpec(**kw)
        return self

    def loop_in(self, funckey, anchor, **kw):
        self.loop_specs[(funckey, anchor)] = LoopSpec(**kw)
        return self

    def exit_check(self, fn):
        self.exit_checks.append(fn)
        return self


def contract(file, qual, props, **kw):
    """Register a contract.  A *coarse* (assumed, 'may do anything') contract never replaces a real one, a real
    one replaces a coarse one, two real contracts for one function are an error."""
    c = Contract(file, qual, props)
    for k, v in kw.items():
        setattr(c, k, v)
    old = REGISTRY.get(c.key)
    if old is not None:
        if getattr(c, "coarse", False) and not getattr(old, "coarse", False):
            return Contract(file, qual, props)      # detached: the real contract stays registered
        if not getattr(c, "coarse", False) and not getattr(old, "coarse", False) and not getattr(old, "_placeholder", False):
            raise RuntimeError("duplicate contract for %s" % c.key)
    REGISTRY[c.key] = c
    return c


class ExternContract:
    """Trusted model of an external callable: model(interp, args, kwargs, node, anchor) -> Val."""

    def __init__(self, name, model, note=""):
        self.name = name
        self.key = "extern:" + name
        self.model = model
        self.note = note
        self.trusted = True


def extern(name, note=""):
    def deco(fn):
        REGISTRY["extern:" + name] = ExternContract(name, fn, note)
        return fn
    return deco


GLOBAL_FACTS = {}      # (module name, global name) -> fn(S, value) -> Bool: trusted facts about a module-level object


def global_fact(module, name):
    def deco(fn):
        GLOBAL_FACTS[(module, name)] = fn
        return fn
    return deco


def class_invariant(cls):
    def deco(fn):
        CLASS_INVARIANTS[cls] = fn
        return fn
    return deco


# ----------------------------------------------------------------------------- spec context
def mangled_name(qualattr):
    if "." in qualattr:
        cls, attr = qualattr.rsplit(".", 1)
        return mangle(attr, cls.split(".")[-1])
    return qualattr


class Heap:
    """Read access to one heap version (old or new)."""

    def __init__(self, S_, snap):
        self.S = S_
        self.snap = snap

    def f(self, obj, qualattr):
        name = mangled_name(qualattr)
        return z3.Select(self.snap.field_arr(name), Val.r(obj))

    def llen(self, v):
        return z3.Select(self.snap.llen, Val.r(v))

    def larr(self, v):
        return z3.Select(self.snap.lel, Val.r(v))

    def lget(self, v, i):
        i = z3.IntVal(i) if isinstance(i, int) else i
        return z3.Select(z3.Select(self.snap.lel, Val.r(v)), i)

    def dhas(self, v, k):
        k = VStr(k) if isinstance(k, str) else k
        return z3.Select(z3.Select(self.snap.dhas, Val.r(v)), k)

    def dget(self, v, k):
        k = VStr(k) if isinstance(k, str) else k
        return z3.Select(z3.Select(self.snap.dval, Val.r(v)), k)

    def dget_or(self, v, k, default):
        return z3.If(self.dhas(v, k), self.dget(v, k), default)

    def dlen(self, v):
        return z3.Select(self.snap.dlen, Val.r(v))

    def dhas_arr(self, v):
        return z3.Select(self.snap.dhas, Val.r(v))

    def dval_arr(self, v):
        return z3.Select(self.snap.dval, Val.r(v))

    def typeof(self, v):
        return z3.Select(self.snap.typeof, Val.r(v))

    def ghost(self, key, default=None):
        return self.snap.ghost.get(key, default)


class _LiveSnap:
    """Adapter giving Heap read access to the live state."""

    def __init__(self, st):
        self.st = st

    @property
    def fields(self):
        return self.st.fields

    def field_arr(self, name):
        return self.st.field_arr(name)

    llen = property(lambda s: s.st.llen)
    lel = property(lambda s: s.st.lel)
    dhas = property(lambda s: s.st.dhas)
    dval = property(lambda s: s.st.dval)
    dlen = property(lambda s: s.st.dlen)
    typeof = property(lambda s: s.st.typeof)
    ghost = property(lambda s: s.st.ghost)
    next_id = property(lambda s: s.st.next_id)


class Args:
    def __init__(self, d):
        self.__dict__["_d"] = d

    def __getattr__(self, k):
        try:
            return self._d[k]
        except KeyError:
            raise AttributeError(k)

    def __getitem__(self, k):
        return self._d[k]


class SpecCtx:
    """What requires/ensures/signals/modifies functions see."""

    def __init__(self, interp, contract_, args, old_snap):
        self.I = interp
        self.c = contract_
        self.a = Args(args)
        self.args = args
        self.old = Heap(self, old_snap)
        self.new = Heap(self, _LiveSnap(interp.st))
        self.result = None
        self.exc = None
        self.table = interp.table
        self.log_start = old_snap.log_len
        self.at_call = False
        self.proving = False      # the clause being evaluated is a proof goal (not an assumption)
        self.extra = {}
        self._region = None

    # -- names
    def mangled(self, qualattr):
        if "." in qualattr:
            cls, attr = qualattr.rsplit(".", 1)
            return mangle(attr, cls.split(".")[-1])
        return qualattr

    def cid(self, name):
        if name in self.table.ids:
            return self.table.ids[name]
        ci = self.I.index.find_class(name)
        if ci is None:
            raise KeyError("class %s" % name)
        return ci.cid

    # -- convenience on the *new* heap (most clauses talk about it); old via S.old
    def f(self, obj, qualattr):
        return self.new.f(obj, qualattr)

    @property
    def log(self):
        return self.I.st.log[self.log_start:]

    def calls(self, label):
        if self.at_call:
            raise RuntimeError("contract %s: the call log is only meaningful while the body is verified; "
                               "log-based clauses belong in exit_check, not in ensures" % self.c.key)
        return [e for e in self.log if e.label == label or e.label.endswith(":" + label)]

    # -- sorts
    @staticmethod
    def is_int(v):
        return Val.is_VInt(v)

    @staticmethod
    def is_str(v):
        return Val.is_VStr(v)

    @staticmethod
    def is_none(v):
        return Val.is_VNone(v)

    @staticmethod
    def is_ref(v):
        return Val.is_VRef(v)

    @staticmethod
    def is_bool(v):
        return Val.is_VBool(v)

    def isinst(self, v, clsname, heap=None):
        """v is a ref whose exact class is clsname (no subclassing for exact agent classes)."""
        h = heap or self.new
        return z3.And(Val.is_VRef(v), h.typeof(v) == self.cid(clsname))

    def pre(self, v, clsname, heap=None):
        """v is a pre-existing object (not allocated by this call) of exact class clsname."""
        # "already allocated": cannot alias anything allocated later on this path
        bound = self.I.st.ghost.get("_pre_bound") or self.I.st.next_id
        g = z3.And(self.isinst(v, clsname, heap), Val.r(v) > 0, Val.r(v) < bound)
        excl = self.I.st.ghost.get("_pre_exclude")
        if excl:
            # ... and it is none of the objects this path created and kept to itself (never stored, never handed to code
            # that could keep them): nothing else can refer to those
            g = z3.And(g, *[Val.r(v) != k for k in excl])
        return g

    def fresh(self, name, sort):
        return self.I.ctx.fresh(name, sort)

    def is_fresh(self, v, clsname):
        """v is an object of class clsname allocated during the call.  At a call site (contract assumed)
        this allocates the object; when the function itself is verified it is a proof goal."""
        from .core import ALLOC_BASE
        if self.at_call and self.result is not None and v.eq(self.result) and \
                getattr(self.c.result, "kind", None) == "fresh":
            return Val.is_VRef(v)       # the result object was already allocated by the call rule
        if self.at_call:
            nv = VRef(self.I.st.alloc(self.cid(clsname)))
            if clsname in ("list", "tuple", "deque"):
                self.I.ctx.assume(self.new.llen(nv) >= 0)
            return v == nv
        return z3.And(self.isinst(v, clsname), Val.r(v) >= ALLOC_BASE)

    def created_during_call(self, v):
        """v is an object allocated after the call started.  At a call site the objects the callee created
        beyond its result live in a block of references reserved for this call."""
        if self.at_call:
            if self._region is None:
                self._region = self.I.st.reserve_region()
            lo, hi = self._region
            return z3.And(Val.is_VRef(v), Val.r(v) >= lo, Val.r(v) < hi)
        return z3.And(Val.is_VRef(v), Val.r(v) >= self.old.snap.next_id, Val.r(v) < self.I.st.next_id)

    def forall_list(self, listval, fn, heap=None, name="j"):
        """fn(j, element j) for every index of the list.  As a proof goal over a list built by a comprehension
        the body is checked at the comprehension's arbitrary index (forall-introduction); otherwise a
        quantified formula."""
        h = heap or self.new
        r = z3.simplify(Val.r(listval))
        wit = self.I.st.ghost.get("comp_witness", {})
        if self.proving and h is self.new and z3.is_int_value(r) and r.as_long() in wit:
            w = wit[r.as_long()]
            if z3.simplify(h.larr(listval)).eq(z3.simplify(w["arr"])) and z3.simplify(h.llen(listval)).eq(z3.simplify(w["len"])) \
                    and w["total"]:
                return fn(w["idx"], h.lget(listval, w["idx"]))
        SpecCtx._nq = getattr(SpecCtx, "_nq", 0) + 1
        j = z3.Int("%s!fa%d" % (name, SpecCtx._nq))
        return z3.ForAll([j], z3.Implies(z3.And(j >= 0, j < h.llen(listval)), fn(j, h.lget(listval, j))))

    def elems(self, listval, p):
        """Declare the sort of the elements of a list value (used when the code iterates over it)."""
        self.I.st.ghost.setdefault("elem_sorts", {})[tkey(listval)] = p
        return z3.BoolVal(True)

    def dict_values(self, dictval, p):
        """Declare the sort of the values of an agent-owned dictionary."""
        self.I.st.ghost.setdefault("dict_value_sorts", {})[tkey(dictval)] = p
        self.I.st.ghost["dict_value_sorts"]["r:" + tkey(Val.r(dictval))] = p
        return z3.BoolVal(True)

    def enum(self, clsname, member):
        return VRef(self.table.enum_refs[(self.cid(clsname), member)])


# helpers usable in specs
def vint(x):
    return VInt(x)


def vstr(x):
    return VStr(x)


def vbool(x):
    return VBool(x)


def ite(c, a, b):
    return z3.If(c, a, b)


def b2v(b):
    return Val.VBool(b)


def i2v(i):
    return Val.VInt(i)


def s2v(s):
    return Val.VStr(s)
