"""Interpreter base: control-flow exceptions, value helpers, name resolution, heap primitives."""
import ast
import z3
from .core import (Val, VNone, VTrue, VFalse, VInt, VStr, VBool, VRef, VFloat, I, B, S, R, ArrIV, ArrVB, ArrVV,
                   ClassName, IsSub, StrOf, IdStr, TYPEBASE, ALLOC_BASE, HOST_CLASS_BASE, Unsupported, PathAbort,
                   FuncObj, BoundMethod, ClassObj, ModuleObj, ExternObj, BuiltinFn, SymCallable, SuperObj,
                   Frame, LogEntry)
from .front import mangle, call_ordinals, node_ordinals


class PyRaise(Exception):
    def __init__(self, exc, origin, cause=None):
        self.exc = exc          # Val term (VRef)
        self.origin = origin    # anchor string of the raise site


class ReturnEx(Exception):
    def __init__(self, value):
        self.value = value


class BreakEx(Exception):
    pass


class ContinueEx(Exception):
    pass


TAGS = ["none", "bool", "int", "str", "float", "ref"]
CTOR_TAG = {"VNone": "none", "VBool": "bool", "VInt": "int", "VStr": "str", "VFloat": "float", "VRef": "ref"}

BUILTIN_NAMES = {
    "len", "str", "int", "float", "bool", "isinstance", "hasattr", "getattr", "setattr", "type", "id", "dict", "list",
    "tuple", "set", "frozenset", "enumerate", "callable", "eval", "max", "min", "next", "iter", "format", "super",
    "repr", "print", "range", "sorted", "any", "all", "hash", "abs", "round", "zip", "object", "bytes",
}
BUILTIN_EXC = {
    "BaseException", "Exception", "KeyboardInterrupt", "SystemExit", "GeneratorExit", "ArithmeticError",
    "ZeroDivisionError", "AssertionError", "AttributeError", "ImportError", "LookupError", "IndexError", "KeyError",
    "NameError", "OSError", "TimeoutError", "RuntimeError", "NotImplementedError", "RecursionError", "StopIteration",
    "TypeError", "ValueError", "UnicodeError", "UnicodeDecodeError", "UnicodeEncodeError", "MemoryError",
    "ConnectionError", "FileNotFoundError", "PermissionError", "OverflowError", "EOFError", "ModuleNotFoundError",
    "UnboundLocalError", "BufferError", "ReferenceError", "SystemError", "StopAsyncIteration",
}
BUILTIN_TYPES = {"dict", "list", "tuple", "set", "frozenset", "str", "int", "float", "bool", "bytes", "object", "type"}


class InterpBase:
    matched_loop_specs = None

    def __init__(self, index, table, contracts, ctx, state, top=None, libs=None):
        self.matched_loop_specs = set()
        self.index = index
        self.table = table
        self.contracts = contracts      # key -> Contract
        self.ctx = ctx
        self.st = state
        self.top = top                  # contract being verified
        self.frames = []
        self.depth = 0
        self.inlined = set()
        self.used_contracts = set()
        self.used_trusted = set()
        self._anchor_cache = {}
        self.hostops = {}
        self.current_exc = []           # stack of exceptions being handled (for bare raise)

    # ------------------------------------------------------------------ anchors
    def anchors_for(self, fnode):
        a = self._anchor_cache.get(id(fnode))
        if a is None:
            a = {}
            a.update({k: "call:" + v for k, v in call_ordinals(fnode).items()})
            a.update(node_ordinals(fnode, (ast.Raise,), "raise"))
            a.update(node_ordinals(fnode, (ast.Subscript,), "subscript"))
            a.update(node_ordinals(fnode, (ast.Attribute,), "attr"))
            a.update(node_ordinals(fnode, (ast.For, ast.While, ast.ListComp, ast.DictComp, ast.GeneratorExp), "loop"))
            a.update(node_ordinals(fnode, (ast.BinOp, ast.Compare, ast.UnaryOp, ast.AugAssign), "op"))
            a.update(node_ordinals(fnode, (ast.Assign, ast.Delete, ast.With, ast.JoinedStr), "stmt"))
            a.update(node_ordinals(fnode, (ast.Name,), "name"))
            a.update(node_ordinals(fnode, (ast.If, ast.IfExp, ast.BoolOp, ast.While), "test"))
            self._anchor_cache[id(fnode)] = a
        return a

    def anchor(self, node, extra=None):
        fr = self.frames[-1]
        base = "?"
        if fr.fi is not None:
            base = self.anchors_for(fr.fi.node).get(id(node), "?")
        if isinstance(node, ast.Attribute) and base.startswith("attr"):
            base = "attr:%s#%s" % (node.attr, base.split("#")[1])
            # ordinal among attributes of that name
            fr_nodes = [n for n in ast.walk(fr.fi.node) if isinstance(n, ast.Attribute) and n.attr == node.attr]
            fr_nodes.sort(key=lambda n: (n.lineno, n.col_offset))
            base = "attr:%s#%d" % (node.attr, [id(n) for n in fr_nodes].index(id(node)) + 1)
        if extra:
            base = "%s/%s" % (base, extra)
        return fr.prefix + base

    # ------------------------------------------------------------------ value helpers
    def tag(self, v, label="tag"):
        if z3.is_app(v):
            t = CTOR_TAG.get(v.decl().name())
            if t:
                return t
        v2 = z3.simplify(v)
        if z3.is_app(v2):
            t = CTOR_TAG.get(v2.decl().name())
            if t:
                return t
        cache = self.st.ghost.setdefault("_tag_cache", {})
        vid = v2.get_id()
        if vid in cache and cache[vid][0].eq(v2):
            return cache[vid][1]
        conds = [Val.is_VNone(v2), Val.is_VBool(v2), Val.is_VInt(v2), Val.is_VStr(v2), Val.is_VFloat(v2), Val.is_VRef(v2)]
        t = TAGS[self.ctx.choose(conds, label)]
        cache[vid] = (v2, t)      # keep the term alive: z3 ast ids are reused after garbage collection
        return t

    def ref_int(self, v):
        return z3.simplify(Val.r(v))

    def concrete_ref(self, v, deep=False):
        """Python int id of a VRef value if determined (syntactically; by the solver when deep)."""
        r = z3.simplify(Val.r(v))
        if z3.is_int_value(r):
            return r.as_long()
        if not deep:
            return None
        return self.ctx.value_of(r)

    def pyobj(self, v, deep=False):
        """Registry object for a ref value, or None."""
        rid = self.concrete_ref(v, deep)
        if rid is None:
            return None
        if rid in self.st.registry:
            return self.st.registry[rid]
        if rid >= TYPEBASE:
            return self.class_obj_for(rid - TYPEBASE)
        return None

    def class_obj_for(self, cid):
        ci = self.table.info.get(cid)
        return ClassObj(cid, ci, None, self.table.names.get(cid))

    def class_term(self, cid):
        return VRef(TYPEBASE + cid)

    def class_of(self, v, label="class"):
        """Concrete class id of a ref value (case split if several are feasible)."""
        r = z3.simplify(Val.r(v))
        if z3.is_int_value(r) and r.as_long() in self.st.reg_class:
            return self.st.reg_class[r.as_long()]
        t = z3.simplify(z3.Select(self.st.typeof, r))
        if z3.is_int_value(t):
            return t.as_long()
        cache = self.st.ghost.setdefault("_class_cache", {})
        tid = t.get_id()
        if tid in cache and cache[tid][0].eq(t):
            return cache[tid][1]
        c = self.ctx.value_of(t)
        if c is not None:
            cache[tid] = (t, c)
            return c
        # split: "host-like" (unknown classes, and builtin classes the engine has no structural model for:
        # exception classes, object, bytes, generator ...) as one bucket, modelled classes individually
        host = z3.Or(t >= z3.IntVal(HOST_CLASS_BASE), *[t == z3.IntVal(k) for k in self.hostlike_ids()])
        if self.ctx.branch(host, label + ":host?"):
            return None
        return self.ctx.enum_int(t, cap=24, label=label)

    def hostlike_ids(self):
        hl = getattr(self.table, "_hostlike", None)
        if hl is None:
            t = self.table
            hl = [k for k in t.known_ids() if k < 200 and t.issub(k, t.id("BaseException"))]
            hl += [t.id(n) for n in ("object", "bytes", "generator", "type", "module", "method")]
            t._hostlike = hl
        return hl

    def class_candidates(self, v):
        """Feasible class ids of a ref value, without committing (None when unbounded / host possible)."""
        t = z3.simplify(z3.Select(self.st.typeof, Val.r(v)))
        if z3.is_int_value(t):
            return [t.as_long()]
        cache = self.st.ghost.setdefault("_cand_cache", {})
        tid = t.get_id()
        if tid in cache and cache[tid][0].eq(t):
            return cache[tid][1]
        vals = self.ctx.possible_ints(t, cap=10)
        if vals is not None and any(k >= HOST_CLASS_BASE for k in vals):
            vals = None
        cache[tid] = (t, vals)
        return vals

    def not_agent_object(self, v):
        """The path condition implies v (a ref) is not an instance of an agent class."""
        t = z3.Select(self.st.typeof, Val.r(v))
        return self.ctx.must(z3.Or(t < 200, t >= HOST_CLASS_BASE))

    def is_host_class(self, cid):
        return cid is None or cid >= HOST_CLASS_BASE

    def mk_ref(self, rid):
        return VRef(rid)

    # -- exceptions
    def new_exc(self, cname, args=()):
        cid = self.table.id(cname) if isinstance(cname, str) else cname
        rid = self.st.alloc(cid)
        self.st.set_field(z3.IntVal(rid), "args", self.st.new_list(list(args), "tuple"))
        return VRef(rid)

    def raise_(self, cname, origin, args=()):
        raise PyRaise(self.new_exc(cname, args), origin)

    def raise_symbolic(self, origin, base="BaseException", label="exc"):
        """Raise an exception object of an unknown class below `base` (host code failing)."""
        c = self.ctx.fresh("exccls", I)
        for a in self.table.exc_closure(c):
            self.ctx.assume(a)
        self.ctx.assume(IsSub(c, z3.IntVal(self.table.id(base))))
        rid = self.st.alloc(c)
        self.st.ghost.setdefault("symbolic_exc", []).append((rid, origin, label))
        raise PyRaise(VRef(rid), origin)

    def exc_class(self, exc):
        return z3.simplify(z3.Select(self.st.typeof, Val.r(exc)))

    def exc_isa(self, exc, cname_or_id):
        k = self.table.id(cname_or_id) if isinstance(cname_or_id, str) else cname_or_id
        if k == self.table.id("BaseException"):
            return z3.BoolVal(True)       # everything that can be raised is a BaseException
        c = self.exc_class(exc)
        if z3.is_int_value(c):
            return z3.BoolVal(self.table.issub(c.as_long(), k)) if c.as_long() in self.table.names else IsSub(c, z3.IntVal(k))
        return IsSub(c, z3.IntVal(k))

    # ------------------------------------------------------------------ host operations
    def hostfn(self, op, kind):
        key = (op, kind)
        f = self.hostops.get(key)
        if f is None:
            rng = {"raises": B, "res": Val, "exc": I}[kind]
            f = z3.Function("Host_%s_%s" % (kind, op), Val, rng)
            self.hostops[key] = f
        return f

    def host_op(self, op, v, node, base=None, extra=None):
        """An operation that runs host code on v: may raise (deterministically per value) or return
        an unconstrained value Host_res_op(v)."""
        if base is None:
            base = getattr(self.top, "host_ops_exc_base", "BaseException") if self.top is not None else "BaseException"
        raises = self.hostfn(op, "raises")(v)
        origin = self.anchor(node, extra) if node is not None else "host:" + op
        self.st.ghost.setdefault("host_ops", []).append((op, origin))
        if self.ctx.branch(raises, "host:%s raises" % op):
            self.raise_symbolic(origin, base, label="host:%s" % op)
        res = self.hostfn(op, "res")(v)
        # what host code hands back is a host-owned value (never one of the agent's own objects)
        self.ctx.assume(z3.Implies(Val.is_VRef(res), z3.And(Val.r(res) > 0, Val.r(res) < self.st.next_id,
                        self.host_or_builtin_class(z3.Select(self.st.typeof, Val.r(res))))))
        return res

    def is_type_object(self, v):
        """v is a class object (result of type(x) / x.__class__ or a class literal)."""
        r = z3.simplify(Val.r(v))
        if z3.is_int_value(r):
            return r.as_long() >= TYPEBASE
        if any(r.eq(x) for x in self.st.ghost.get("type_terms", ())):
            return True
        return False

    # ------------------------------------------------------------------ names
    @property
    def frame(self):
        return self.frames[-1]

    def lookup_name(self, name, node=None):
        fr = self.frame
        f = fr
        while f is not None:
            if name in f.locals:
                mu = f.__dict__.get("maybe_unbound")
                if mu and name in mu:
                    if self.ctx.branch(z3.Bool("unbound!%s" % name), "local may be unbound"):
                        self.raise_("NameError", self.anchor(node) if node is not None else "unbound:" + name)
                    mu.discard(name)
                return f.locals[name]
            f = f.parent
        if fr.fi is None and fr.lexical_class is not None:
            # evaluation in a class body's namespace (default values, class attributes)
            mem = self.index.lookup_member(fr.lexical_class, name)
            if mem is not None and mem[0] == "classattr":
                return self.class_attr_value(mem[2], name, mem[1])
        mod = fr.module
        v = self.lookup_global(mod, name)
        if v is not None:
            return v
        if name in BUILTIN_EXC or name in BUILTIN_TYPES:
            return self.class_term(self.table.id(name))
        if name in BUILTIN_NAMES:
            return self.st_register_cached(("builtin", name), lambda: BuiltinFn(name))
        if name in ("True", "False", "None"):
            return {"True": VTrue, "False": VFalse, "None": VNone}[name]
        raise Unsupported("unresolved name %s in %s" % (name, fr.fi.key if fr.fi else "?"))

    def st_register_cached(self, key, mk):
        cache = self.st.ghost.setdefault("_regcache", {})
        if key in cache:
            return cache[key]
        v = self.st.register(mk())
        cache[key] = v
        return v

    def lookup_global(self, mod, name):
        key = (mod.name, name)
        if key in self.st.globals_store:
            return self.st.globals_store[key]
        b = self.index.resolve_global(mod, name)
        if b is None:
            return None
        kind = b[0]
        if kind == "func":
            return self.st_register_cached(("func", b[1].key), lambda: FuncObj(b[1], None))
        if kind == "class":
            return self.class_term(b[1].cid)
        if kind == "module":
            return self.st_register_cached(("module", b[1]), lambda: ModuleObj(b[1], True))
        if kind == "extern":
            return self.extern_value(b[1])
        if kind == "constexpr":
            expr = b[1]
            if isinstance(expr, ast.Call) and isinstance(expr.func, ast.Name):
                t = self.index.resolve_global(b[2], expr.func.id)
                if t is not None and t[0] == "class" and getattr(t[1], "cid", None) is not None and \
                        self.table.info.get(t[1].cid) is not None:
                    # a module-level object (created once, at import): an already existing object of that class, about
                    # which the class invariant and the facts declared for it (contract.global_fact) are known
                    from .contract import OBJ, GLOBAL_FACTS, SpecCtx
                    v = self.make_param("global_" + name, OBJ(t[1].name))
                    self.st.globals_store[key] = v
                    fact = GLOBAL_FACTS.get((mod.name, name))
                    if fact is not None:
                        self.ctx.assume(fact(SpecCtx(self, self.top, {}, self.st.snapshot()), v))
                    return v
            return self.eval_const(b[1], b[2])
        if kind == "constexpr_aug":
            prev, st, m = b[1], b[2], b[3]
            base = self._eval_prev_binding(prev, m)
            add = self.eval_const(st.value, m)
            return self.list_concat(base, add)
        return None

    def _eval_prev_binding(self, prev, m):
        if prev is None:
            raise Unsupported("augmented global without base")
        if prev[0] == "constexpr":
            return self.eval_const(prev[1], m)
        if prev[0] == "constexpr_aug":
            base = self._eval_prev_binding(prev[1], m)
            return self.list_concat(base, self.eval_const(prev[2].value, m))
        raise Unsupported("augmented global base %s" % (prev[0],))

    def eval_const(self, expr, mod):
        """Evaluate a module-level constant expression in the module's own scope."""
        fr = Frame(None, None, None, module=mod)
        self.frames.append(fr)
        try:
            return self.eval(expr)
        finally:
            self.frames.pop()

    def extern_value(self, dotted):
        # extern classes that are part of the class table
        last = dotted.split(".")[-1]
        alias = {"collections.deque": "deque", "collections.OrderedDict": "OrderedDict",
                 "concurrent.futures.Future": "Future", "concurrent.futures.ThreadPoolExecutor": "ThreadPoolExecutor",
                 "threading.Lock": "Lock", "threading.Event": "Event", "threading.Thread": "Thread",
                 "typing.Sequence": "Sequence", "types.FrameType": "frame"}
        if dotted in alias:
            return self.class_term(self.table.id(alias[dotted]))
        if dotted.endswith("ResponseType.NO_CHANGE") or dotted.endswith("ResponseType.UPDATE"):
            return Val.VInt(z3.Int("ResponseType_" + dotted.split(".")[-1]))      # protobuf enum constants
        if dotted in ("sys.exec_prefix", "sys.prefix", "os.sep"):
            return Val.VStr(z3.String(dotted.replace(".", "_")))      # text constants of the interpreter
        return self.st_register_cached(("extern", dotted), lambda: ExternObj(dotted))

    # ------------------------------------------------------------------ lists / dicts primitives
    def llen(self, r):
        return z3.Select(self.st.llen, r)

    def lel(self, r):
        return z3.Select(self.st.lel, r)

    def list_get(self, r, i):
        return z3.Select(z3.Select(self.st.lel, r), i)

    def list_append(self, r, v):
        self.st.mark_escaped(v)
        n = self.llen(r)
        self.st.lel = z3.Store(self.st.lel, r, z3.Store(self.lel(r), n, v))
        self.st.llen = z3.Store(self.st.llen, r, n + 1)
        self.st.writes.append(("list", r, None))

    def list_concat(self, a, b, cid_name="list"):
        ra, rb = Val.r(a), Val.r(b)
        na, nb = self.llen(ra), self.llen(rb)
        i = z3.Int("i!cat")
        arr = z3.Lambda([i], z3.If(i < na, z3.Select(self.lel(ra), i), z3.Select(self.lel(rb), i - na)))
        return self.st.new_list_arr(arr, z3.simplify(na + nb), cid_name)

    def list_extend(self, r, other):
        ro = Val.r(other)
        n, no = self.llen(r), self.llen(ro)
        i = z3.Int("i!ext")
        arr = z3.Lambda([i], z3.If(i < n, z3.Select(self.lel(r), i), z3.Select(self.lel(ro), i - n)))
        self.st.lel = z3.Store(self.st.lel, r, arr)
        self.st.llen = z3.Store(self.st.llen, r, z3.simplify(n + no))
        self.st.writes.append(("list", r, None))

    def dhas(self, r, k):
        return z3.Select(z3.Select(self.st.dhas, r), k)

    def dget(self, r, k):
        return z3.Select(z3.Select(self.st.dval, r), k)

    def dlen(self, r):
        return z3.Select(self.st.dlen, r)

    def dict_set(self, r, k, v):
        self.st.mark_escaped(k, v)
        had = self.dhas(r, k)
        self.st.dlen = z3.Store(self.st.dlen, r, z3.If(had, self.dlen(r), self.dlen(r) + 1))
        self.st.dhas = z3.Store(self.st.dhas, r, z3.Store(z3.Select(self.st.dhas, r), k, z3.BoolVal(True)))
        self.st.dval = z3.Store(self.st.dval, r, z3.Store(z3.Select(self.st.dval, r), k, v))
        self.st.writes.append(("dict", r, None))

    def dict_del(self, r, k):
        self.st.dlen = z3.Store(self.st.dlen, r, self.dlen(r) - 1)
        self.st.dhas = z3.Store(self.st.dhas, r, z3.Store(z3.Select(self.st.dhas, r), k, z3.BoolVal(False)))
        self.st.writes.append(("dict", r, None))

    def dict_copy(self, r, cid_name="dict"):
        rid = self.st.alloc(self.table.id(cid_name))
        n = z3.IntVal(rid)
        self.st.dhas = z3.Store(self.st.dhas, n, z3.Select(self.st.dhas, r))
        self.st.dval = z3.Store(self.st.dval, n, z3.Select(self.st.dval, r))
        self.st.dlen = z3.Store(self.st.dlen, n, self.dlen(r))
        return VRef(rid)

    def key_ok(self, k):
        """Dictionary keys in the model are primitives or refs with identity hashing (trusted)."""
        return True

    # ------------------------------------------------------------------ string helpers
    def str_of(self, v):
        """Term for str(v) for a value whose str() cannot run host code (primitives)."""
        v = z3.simplify(v)
        if z3.is_app(v) and v.decl().name() == "VStr":
            self.ctx.assume(StrOf(v) == v.arg(0))
            return v.arg(0)
        s = StrOf(v)
        self.ctx.assume(z3.Implies(Val.is_VStr(v), s == Val.s(v)))
        if z3.is_app(v) and v.decl().name() == "VInt":
            # digits only when the value is syntactically an int (int.to.str is costly for the solver)
            i = v.arg(0)
            self.ctx.assume(z3.Implies(i >= 0, s == z3.IntToStr(i)))
            self.ctx.assume(z3.Implies(i < 0, s == z3.Concat(z3.StringVal("-"), z3.IntToStr(-i))))
        self.ctx.assume(z3.Implies(Val.is_VNone(v), s == z3.StringVal("None")))
        self.ctx.assume(z3.Implies(Val.is_VBool(v), s == z3.If(Val.b(v), z3.StringVal("True"), z3.StringVal("False"))))
        return s

    def to_str_checked(self, v, node, what="str"):
        """str(v) as Python would run it: primitives are total; objects may run host __str__."""
        v = z3.simplify(v)
        if not self.ctx.branch(Val.is_VRef(v), "str-arg-is-object"):
            return self.str_of(v)
        if self.is_type_object(v):
            return StrOf(v)          # "<class 'x'>": class objects render without running instance code
        ccid = z3.simplify(z3.Select(self.st.typeof, Val.r(v)))
        if z3.is_int_value(ccid):
            cid = ccid.as_long()
        elif self.not_agent_object(v):
            cid = None
        else:
            cid = self.class_of(v, "str-arg-class")
        if cid == self.table.id("UUID"):
            return Val.s(self.st.get_field(Val.r(v), "$str"))       # str(uuid) is total (trusted)
        if self.is_host_class(cid) or cid in self._containers():
            # containers call repr() of their elements, which may be host objects
            res = self.host_op(what, v, node)
            self.ctx.assume(Val.is_VStr(res))
            self.ctx.assume(Val.s(res) == StrOf(v))
            return StrOf(v)
        return StrOf(v)

    def _containers(self):
        return {self.table.id(n) for n in ("dict", "list", "tuple", "set", "frozenset", "deque", "OrderedDict")}
