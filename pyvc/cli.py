"""bin/check entry point: verify every contract serving a property, report, write evidence.

Exit codes: 0 property held on every obligation; 1 violation (VIOLATION line printed);
2 undecided (solver unknown / construct outside the subset / function not found); 3 checker crash.
Undecided and crashes are never printed as violations.
"""
import argparse
import glob
import importlib
import json
import multiprocessing as mp
import os
import sys
import time
import traceback

ROOT = os.path.dirname(os.path.dirname(os.path.abspath(__file__)))
sys.path.insert(0, ROOT)

_G = {}


def load_specs():
    from pyvc import contract as C
    for f in sorted(glob.glob(os.path.join(ROOT, "specs", "*.py"))):
        name = os.path.basename(f)[:-3]
        if name.startswith("_"):
            continue
        importlib.import_module("specs." + name)
    return C.REGISTRY


def _init():
    from pyvc.front import Index
    from pyvc.core import ClassTable
    from pyvc.verify import build_axioms
    reg = load_specs()
    idx = Index()
    tab = ClassTable(idx)
    _G.update(reg=reg, idx=idx, tab=tab, ax=build_axioms(tab))


def _verify_one(args):
    key, timeout_ms = args
    try:
        if not _G:
            _init()
        from pyvc.verify import verify_contract
        c = _G["reg"][key]
        r = verify_contract(_G["idx"], _G["tab"], _G["reg"], c, _G["ax"], timeout_ms=timeout_ms)
        obls = {}
        for n, o in r.obligations.items():
            fails = []
            for f in o["failed"]:
                fails.append({"status": f.status, "detail": f.detail, "model": f.model_txt, "meta": f.meta,
                              "goal": str(f.goal)[:2000], "inputs": getattr(f, "inputs", None)})
            obls[n] = {"kind": o["kind"], "vcs": o["vcs"], "time": o["time"], "props": o["props"], "failed": fails}
        return {"key": key, "status": r.status, "reason": r.reason, "obligations": obls, "paths": r.paths,
                "solver_time": r.solver_time, "wall": r.wall, "sha256": r.sha256, "inlined": sorted(r.inlined),
                "used_contracts": sorted(r.used_contracts), "used_trusted": sorted(r.used_trusted),
                "exits": r.exits, "props": c.props, "cvc5": getattr(r, "by_backend", {}).get("cvc5", 0)}
    except Exception:
        return {"key": key, "status": "error", "reason": traceback.format_exc(), "obligations": {}, "paths": 0,
                "solver_time": 0, "wall": 0, "sha256": "", "inlined": [], "used_contracts": [], "used_trusted": [],
                "exits": {}, "props": []}


def load_known():
    p = os.path.join(ROOT, "known_findings.json")
    if not os.path.exists(p):
        return []
    return json.load(open(p)).get("findings", [])


def run_property(pid, tier, seed, jobs):
    t0 = time.time()
    _init()
    reg = _G["reg"]
    keys = [k for k, c in reg.items() if not k.startswith("extern:") and not getattr(c, "trusted", False)
            and not getattr(c, "coarse", False) and pid in c.props]
    timeout_ms = 10000 if tier == "quick" else 60000
    if not keys:
        print("no contracts serve %s" % pid)
        return 2
    if jobs > 1 and len(keys) > 1:
        with mp.get_context("fork").Pool(min(jobs, len(keys))) as pool:
            results = pool.map(_verify_one, [(k, timeout_ms) for k in sorted(keys)], chunksize=1)
    else:
        results = [_verify_one((k, timeout_ms)) for k in sorted(keys)]
    known = [k for k in load_known() if k.get("property") == pid and k.get("status") == "open"]
    n_obl = n_ok = n_vcs = 0
    violations, undecided, errors, knowns = [], [], [], []
    samples = []
    by_kind = {}
    solver_time = 0.0
    funcs = []
    inlined, trusted, used = set(), set(), set()
    for r in results:
        solver_time += r["solver_time"]
        funcs.append({"function": r["key"], "sha256": r["sha256"], "paths": r["paths"], "status": r["status"],
                      "wall_s": round(r["wall"], 2), "exits": r["exits"]})
        inlined |= set(r["inlined"])
        trusted |= set(r["used_trusted"])
        used |= set(r["used_contracts"])
        if r["status"] == "error":
            errors.append((r["key"], r["reason"]))
            continue
        if r["status"] == "undecided":
            undecided.append((r["key"], r["reason"]))
        for name, o in sorted(r["obligations"].items()):
            if pid not in o["props"]:
                continue
            n_obl += 1
            n_vcs += o["vcs"]
            by_kind[o["kind"]] = by_kind.get(o["kind"], 0) + 1
            if not o["failed"]:
                n_ok += 1
                if len(samples) < 6:
                    samples.append({"obligation": name, "kind": o["kind"], "path_vcs": o["vcs"], "result": "unsat",
                                    "solver_s": round(o["time"], 3)})
                continue
            f = o["failed"][0]
            if f["status"] == "unknown":
                undecided.append((name, f["detail"]))
                continue
            kf = [k for k in known if k.get("obligation") == name]
            if kf:
                knowns.append((name, kf[0]))
            else:
                violations.append((name, o, r["key"]))
    # ---- report
    rc = 0
    replay_dir = os.path.join(ROOT, "out", "replay")
    os.makedirs(replay_dir, exist_ok=True)
    for name, kf in knowns:
        print("KNOWN-FINDING: property=%s %s [%s]" % (pid, kf.get("what", ""), name))
    for name, o, key in violations:
        f = o["failed"][0]
        import hashlib
        path = os.path.join(replay_dir, "%s_%s.json" % (pid, hashlib.sha1(name.encode()).hexdigest()[:10]))
        rep = None
        try:
            from pyvc.replay import try_replay
            rep = try_replay(name, key, f, _G)
        except Exception:
            rep = {"reproduced": None, "note": "replay driver error: " + traceback.format_exc()[-800:]}
        json.dump({"property": pid, "obligation": name, "kind": o["kind"], "function": key, "detail": f["detail"],
                   "goal": f["goal"], "solver": "z3 " + _z3v(), "solver_output": "sat", "model": f["model"],
                   "replay": rep}, open(path, "w"), indent=1)
        if rep and rep.get("reproduced") is False:
            undecided.append((name, "counter-model does not replay on the real code (engine imprecision): %s"
                              % rep.get("note", "")))
            continue
        suffix = "" if (rep and rep.get("reproduced")) else " no-failing-input-found"
        print("obligation failed: %s\n   %s" % (name, f["detail"]))
        print("VIOLATION property=%s replay=%s%s" % (pid, path, suffix))
        rc = 1
    for k, why in errors:
        print("CHECKER-ERROR %s\n%s" % (k, why))
    for k, why in undecided:
        print("UNDECIDED %s: %s" % (k, why))
    if rc == 0 and errors:
        rc = 3
    elif rc == 0 and undecided:
        rc = 2
    if rc == 0 and n_obl == 0:
        print("UNDECIDED: zero obligations generated for %s" % pid)
        rc = 2
    wall = time.time() - t0
    ev = {
        "property_id": pid, "tier": tier, "seed": seed, "level": "proof",
        "coverage": {
            # obligations = those claimed as holding on this tree; obligations failing as *recorded known findings*
            # are not part of the proof claim and are counted separately below
            "obligations": n_obl - len(knowns), "discharged": n_ok, "path_vcs": n_vcs,
            "obligations_generated": n_obl, "obligations_failing_as_known_findings": len(knowns),
            "checker_cmd": "bin/check %s --tier %s" % (pid, tier),
            "trusted_base": sorted("lib:" + t for t in trusted) + sorted("inlined:" + i for i in inlined)
            + sorted("assumed-contract:" + k for k in used if getattr(reg.get(k), "coarse", False)
                     or getattr(reg.get(k), "trusted", False)),
            "by_kind": by_kind,
            "by_backend": {"z3-%s" % _z3v(): "all path VCs not listed under cvc5",
                           "cvc5-1.0.3 (path VCs z3 left unknown)": sum(r.get("cvc5", 0) for r in results)},
            "solver_time_s": round(solver_time, 2),
            "functions_under_contract": funcs,
            "callee_contracts_used": sorted(used),
            "assumed_contracts": sorted(k for k in used if getattr(reg.get(k), "coarse", False)
                                        or getattr(reg.get(k), "trusted", False)),
            "undecided": [u[0] for u in undecided], "known_findings": [k[0] for k in knowns],
            "violations": [v[0] for v in violations],
            "samples": samples or [{"note": "no discharged obligation"}],
            "explanation": "obligations are named <function>/<KIND>/<anchor>; one obligation = all path VCs of that "
                           "name unsat; generated from /repo/src on this run by symbolic execution of the ast",
        },
        "assumptions": _assumptions(pid),
        "wall_s": round(wall, 2), "violations": len([v for v in violations]),
    }
    os.makedirs(os.path.join(ROOT, "evidence"), exist_ok=True)
    json.dump(ev, open(os.path.join(ROOT, "evidence", "%s.json" % pid), "w"), indent=1)
    print("%s: %d obligations (%d path VCs), %d discharged, %d known findings, %d violations, %d undecided; %.1fs"
          % (pid, n_obl, n_vcs, n_ok, len(knowns), len(violations), len(undecided), wall))
    return rc


def _assumptions(pid):
    base = [
        "pyvc encoding of the Python subset (DESIGN.md 4.2): ints unbounded (exact), floats as reals, str()/int(str)/"
        "lower/strip/basename uninterpreted and shared between code and spec",
        "for-each lifting: a loop body verified for an arbitrary element holds for every element in order",
        "no asynchronous exceptions; no thread interleaving semantics",
        "library models in pyvc/lib.py and specs/*.py marked trusted",
        "z3 is sound",
    ]
    return base


def _z3v():
    import z3
    return z3.get_version_string()


def main():
    ap = argparse.ArgumentParser()
    ap.add_argument("pid", nargs="?")
    ap.add_argument("--tier", default=os.environ.get("VERIF_TIER", "quick"))
    ap.add_argument("--jobs", type=int, default=min(16, os.cpu_count() or 4))
    ap.add_argument("--replay")
    a = ap.parse_args()
    seed = int(os.environ.get("VERIF_SEED", "0") or 0)
    if a.replay:
        from pyvc.replay import show_replay
        sys.exit(show_replay(a.replay))
    try:
        rc = run_property(a.pid, a.tier if a.tier in ("quick", "thorough") else "quick", seed, a.jobs)
    except Exception:
        traceback.print_exc()
        rc = 3
    sys.exit(rc)


if __name__ == "__main__":
    main()
