"""bin/check entry point: verify every contract serving a property, report, write evidence.

Exit codes: 0 property held on every obligation; 1 violation (VIOLATION line printed);
2 undecided (solver unknown / construct outside the subset / function not found); 3 checker crash.
Undecided and crashes are never printed as violations.
"""
import argparse
import glob
import importlib
import json
import multiprocessing as mp
import os
import sys
import time
import traceback

ROOT = os.path.dirname(os.path.dirname(os.path.abspath(__file__)))
sys.path.insert(0, ROOT)

_G = {}


def load_specs():
    from pyvc import contract as C
    for f in sorted(glob.glob(os.path.join(ROOT, "specs", "*.py"))):
        name = os.path.basename(f)[:-3]
        if name.startswith("_"):
            continue
        importlib.import_module("specs." + name)
    return C.REGISTRY


def _init():
    from pyvc.front import Index
    from pyvc.core import ClassTable
    from pyvc.verify import build_axioms
    reg = load_specs()
    idx = Index()
    tab = ClassTable(idx)
    _G.update(reg=reg, idx=idx, tab=tab, ax=build_axioms(tab))


def _verify_one(args):
    key, timeout_ms = args
    try:
        if not _G:
            _init()
        from pyvc.verify import verify_contract
        c = _G["reg"][key]
        r = verify_contract(_G["idx"], _G["tab"], _G["reg"], c, _G["ax"], timeout_ms=timeout_ms)
        obls = {}
        for n, o in r.obligations.items():
            fails = []
            for f in o["failed"]:
                fails.append({"status": f.status, "detail": f.detail, "model": f.model_txt, "meta": f.meta,
                              "goal": str(f.goal)[:2000], "inputs": getattr(f, "inputs", None)})
            obls[n] = {"kind": o["kind"], "vcs": o["vcs"], "time": o["time"], "props": o["props"], "failed": fails,
                       "vacuous": bool(o.get("vacuous"))}
        return {"key": key, "status": r.status, "reason": r.reason, "obligations": obls, "paths": r.paths,
                "solver_time": r.solver_time, "wall": r.wall, "sha256": r.sha256, "inlined": sorted(r.inlined),
                "used_contracts": sorted(r.used_contracts), "used_trusted": sorted(r.used_trusted),
                "exits": r.exits, "props": c.props, "cvc5": getattr(r, "by_backend", {}).get("cvc5", 0),
                "xc": {k[3:]: v for k, v in getattr(r, "by_backend", {}).items() if k.startswith("xc_")}}
    except Exception:
        return {"key": key, "status": "error", "reason": traceback.format_exc(), "obligations": {}, "paths": 0,
                "solver_time": 0, "wall": 0, "sha256": "", "inlined": [], "used_contracts": [], "used_trusted": [],
                "exits": {}, "props": []}


def _lost(key, why):
    return {"key": key, "status": "error", "reason": why, "obligations": {}, "paths": 0, "solver_time": 0, "wall": 0,
            "sha256": "", "inlined": [], "used_contracts": [], "used_trusted": [], "exits": {}, "props": []}


def _child(conn, task):
    try:
        conn.send(_verify_one(task))
    except BaseException:
        try:
            conn.send(_lost(task[0], traceback.format_exc()))
        except Exception:
            pass
    finally:
        conn.close()


def run_tasks(tasks, jobs, wall_limit=1500, retries=2):
    """One forked process per contract (the index and the specs are loaded once, before forking).  A solver crash
    (libz3 can segfault) or a hang loses only that process: the contract is retried, then reported as a checker
    error - never as a verdict."""
    ctx = mp.get_context("fork")
    pending = [(t, 0) for t in tasks]
    running = {}          # key -> (proc, conn, task, attempt, t0)
    done = {}
    while pending or running:
        while pending and len(running) < max(1, jobs):
            task, attempt = pending.pop(0)
            pc, cc = ctx.Pipe(duplex=False)
            p = ctx.Process(target=_child, args=(cc, task), daemon=True)
            p.start()
            cc.close()
            running[task[0]] = (p, pc, task, attempt, time.time())
        time.sleep(0.02)
        for key in list(running):
            p, pc, task, attempt, t0 = running[key]
            res = None
            if pc.poll():
                try:
                    res = pc.recv()
                except (EOFError, OSError):
                    res = None
                p.join(5)
            elif p.is_alive() and time.time() - t0 < wall_limit:
                continue
            if res is None:
                timed_out = p.is_alive()
                why = "exit code %s" % p.exitcode if not timed_out else "no result within %d s" % wall_limit
                if p.is_alive():
                    p.kill()
                p.join(5)
                pc.close()
                del running[key]
                if attempt + 1 <= retries and not timed_out:
                    pending.append((task, attempt + 1))        # a crashed verifier process (libz3) is retried ...
                    continue                                   # ... a function that exhausts its wall budget is not
                res = _lost(key, "verifier process lost (%s), %d attempts" % (why, attempt + 1))
            else:
                pc.close()
                del running[key]
            done[key] = res
    return [done[t[0]] for t in tasks]


def load_known():
    p = os.path.join(ROOT, "known_findings.json")
    if not os.path.exists(p):
        return []
    return json.load(open(p)).get("findings", [])


def load_baseline(pid):
    """obligations discharged on the unchanged tree (written by bin/mkbaseline, committed): an obligation of this list
    that can no longer be discharged is a regression of a proved clause"""
    p = os.path.join(ROOT, "baseline", "obligations.json")
    if not os.path.exists(p):
        return set()
    return set(json.load(open(p)).get(pid, []))


def run_property(pid, tier, seed, jobs):
    t0 = time.time()
    _init()
    reg = _G["reg"]
    keys = [k for k, c in reg.items() if not k.startswith("extern:") and not getattr(c, "trusted", False)
            and not getattr(c, "coarse", False) and pid in c.props]
    timeout_ms = 10000 if tier == "quick" else 60000
    extras = tier == "thorough" and not os.environ.get("PYVC_NO_THOROUGH_EXTRAS")
    if extras:
        os.environ["PYVC_CROSSCHECK"] = "1"          # inherited by the forked verifier processes
    if not keys:
        print("no contracts serve %s" % pid)
        return 2
    results = run_tasks([(k, timeout_ms) for k in sorted(keys)], jobs, wall_limit=900 if tier == "quick" else 7200)
    known = [k for k in load_known() if k.get("property") == pid and k.get("status") == "open"]
    baseline = load_baseline(pid)
    # an obligation the solver left open: give its function a second, larger budget (one at a time, so that a
    # loaded machine cannot turn a proof into an alarm) before concluding anything
    retry = []
    for r in results:
        if r["status"] not in ("ok", "undecided"):
            continue
        fails = [(n, o["failed"][0]["status"]) for n, o in r["obligations"].items() if o["failed"] and pid in o["props"]]
        if fails and all(stt == "unknown" for _n, stt in fails) and any(n in baseline for n, _s in fails):
            retry.append(r["key"])        # nothing decided against the function, and a proved clause is now open
    if retry:
        again = run_tasks([(k, timeout_ms * 3) for k in retry], max(1, min(4, jobs)), wall_limit=900, retries=1)
        by_key = {r["key"]: r for r in again}
        results = [by_key[r["key"]] if r["key"] in by_key and by_key[r["key"]]["status"] != "error" else r for r in results]
    regressed = []
    n_obl = n_ok = n_vcs = 0
    violations, undecided, errors, knowns = [], [], [], []
    samples = []
    by_kind = {}
    solver_time = 0.0
    funcs = []
    inlined, trusted, used = set(), set(), set()
    for r in results:
        solver_time += r["solver_time"]
        funcs.append({"function": r["key"], "sha256": r["sha256"], "paths": r["paths"], "status": r["status"],
                      "wall_s": round(r["wall"], 2), "exits": r["exits"]})
        inlined |= set(r["inlined"])
        trusted |= set(r["used_trusted"])
        used |= set(r["used_contracts"])
        if r["status"] == "error":
            errors.append((r["key"], r["reason"]))
            continue
        if r["status"] == "undecided":
            undecided.append((r["key"], r["reason"]))
        for name, o in sorted(r["obligations"].items()):
            if pid not in o["props"]:
                continue
            n_obl += 1
            n_vcs += o["vcs"]
            by_kind[o["kind"]] = by_kind.get(o["kind"], 0) + 1
            if not o["failed"] and o.get("vacuous"):
                undecided.append((name, "vacuous: every path VC of this obligation lies on an impossible path "
                                        "(contradictory assumptions?) - nothing was checked"))
                continue
            if not o["failed"]:
                n_ok += 1
                if len(samples) < 6:
                    samples.append({"obligation": name, "kind": o["kind"], "path_vcs": o["vcs"], "result": "unsat",
                                    "solver_s": round(o["time"], 3)})
                continue
            f = o["failed"][0]
            if f["status"] == "unknown":
                if name in baseline:
                    regressed.append((name, o, r["key"]))
                else:
                    undecided.append((name, f["detail"]))
                continue
            kf = [k for k in known if k.get("obligation") == name]
            if kf:
                knowns.append((name, kf[0]))
            else:
                violations.append((name, o, r["key"]))
    # ---- report
    rc = 0
    replay_dir = os.environ.get("PYVC_REPLAY_DIR") or os.path.join(ROOT, "out", "replay")
    os.makedirs(replay_dir, exist_ok=True)
    for name, kf in knowns:
        print("KNOWN-FINDING: property=%s %s [%s]" % (pid, kf.get("what", ""), name))
    for name, o, key in violations:
        f = o["failed"][0]
        import hashlib
        path = os.path.join(replay_dir, "%s_%s.json" % (pid, hashlib.sha1(name.encode()).hexdigest()[:10]))
        rep = None
        try:
            from pyvc.replay import try_replay
            rep = try_replay(name, key, f, _G)
        except Exception:
            rep = {"reproduced": None, "note": "replay driver error: " + traceback.format_exc()[-800:]}
        json.dump({"property": pid, "obligation": name, "kind": o["kind"], "function": key, "detail": f["detail"],
                   "goal": f["goal"], "solver": "z3 " + _z3v(), "solver_output": "sat", "model": f["model"],
                   "replay": rep}, open(path, "w"), indent=1)
        if rep and rep.get("reproduced") is False:
            undecided.append((name, "counter-model does not replay on the real code (engine imprecision): %s"
                              % rep.get("note", "")))
            continue
        suffix = "" if (rep and rep.get("reproduced")) else " no-failing-input-found"
        print("obligation failed: %s\n   %s" % (name, f["detail"]))
        print("VIOLATION property=%s replay=%s%s" % (pid, path, suffix))
        rc = 1
    for name, o, key in regressed:
        f = o["failed"][0]
        import hashlib
        path = os.path.join(replay_dir, "%s_%s.json" % (pid, hashlib.sha1(name.encode()).hexdigest()[:10]))
        rep = None
        try:
            from pyvc.replay import try_replay
            rep = try_replay(name, key, f, _G)
        except Exception:
            rep = {"reproduced": None, "note": "replay driver error: " + traceback.format_exc()[-800:]}
        json.dump({"property": pid, "obligation": name, "kind": o["kind"], "function": key,
                   "detail": "this obligation was discharged on the unchanged tree (baseline/obligations.json) and can no "
                             "longer be discharged on the current source, also with three times the solver budget: the "
                             "clause is no longer provable. " + (f["detail"] or ""),
                   "goal": f["goal"], "solver": "z3 " + _z3v() + " / cvc5", "solver_output": "unknown (no model)", "model": None,
                   "replay": rep}, open(path, "w"), indent=1)
        suffix = "" if (rep and rep.get("reproduced")) else " no-failing-input-found"
        print("obligation no longer provable: %s\n   proved on the unchanged tree; solver: %s" % (name, (f["detail"] or "")[:300]))
        print("VIOLATION property=%s replay=%s%s" % (pid, path, suffix))
        rc = 1
    native, selftest = [], []
    if extras:
        from pyvc import thorough as T
        import hashlib
        for script, drc, out in T.run_native_drivers(pid):
            native.append({"driver": script, "exit": drc})
            if drc == 1:
                # the clause is observed violated on the real code by CPython: a failing input, whatever the prover said
                path = os.path.join(replay_dir, "%s_native_%s.json" % (pid, hashlib.sha1(script.encode()).hexdigest()[:8]))
                json.dump({"property": pid, "obligation": "native driver replay/%s" % script, "kind": "NATIVE",
                           "function": script, "detail": "the driver builds the scenario on the real code with CPython and "
                           "observes the clause violated", "goal": "", "solver": "CPython", "solver_output": out[-3000:],
                           "model": None, "replay": {"reproduced": True, "driver": script, "driver_exit": 1, "output": out}},
                          open(path, "w"), indent=1)
                if not any(k.get("driver") == script for k in known):
                    print("native driver observes a violation: replay/%s\n%s" % (script, out[-600:]))
                    print("VIOLATION property=%s replay=%s" % (pid, path))
                    rc = 1
            elif drc not in (0, 1):
                undecided.append(("replay/" + script, "driver did not run to a verdict (exit %s)" % drc))
        selftest = T.run_seed_selftest(pid)
        for st_ in selftest:
            if st_.get("applied") and not st_.get("detected"):
                print("SELFTEST-MISS seed=%s (the check did not report the seeded change: rc=%s)" % (st_["seed"], st_.get("rc")))
            elif st_.get("applied"):
                print("SELFTEST-OK seed=%s detected (%d violation line(s))" % (st_["seed"], st_.get("violations", 0)))
    for k, why in errors:
        print("CHECKER-ERROR %s\n%s" % (k, why))
    for k, why in undecided:
        print("UNDECIDED %s: %s" % (k, why))
    if rc == 0 and errors:
        rc = 3
    elif rc == 0 and undecided:
        rc = 2
    if rc == 0 and n_obl == 0:
        print("UNDECIDED: zero obligations generated for %s" % pid)
        rc = 2
    wall = time.time() - t0
    ev = {
        "property_id": pid, "tier": tier, "seed": seed, "level": "proof",
        "coverage": {
            # obligations = those claimed as holding on this tree; obligations failing as *recorded known findings*
            # are not part of the proof claim and are counted separately below
            "obligations": n_obl - len(knowns), "discharged": n_ok, "path_vcs": n_vcs,
            "obligations_generated": n_obl, "obligations_failing_as_known_findings": len(knowns),
            "checker_cmd": "bin/check %s --tier %s" % (pid, tier),
            "trusted_base": sorted("lib:" + t for t in trusted) + sorted("inlined:" + i for i in inlined)
            + sorted("assumed-contract:" + k for k in used if getattr(reg.get(k), "coarse", False)
                     or getattr(reg.get(k), "trusted", False)),
            "by_kind": by_kind,
            "by_backend": {"z3-%s" % _z3v(): "all path VCs not listed under cvc5",
                           "cvc5-1.0.3 (path VCs z3 left unknown)": sum(r.get("cvc5", 0) for r in results)},
            "solver_time_s": round(solver_time, 2),
            "functions_under_contract": funcs,
            "callee_contracts_used": sorted(used),
            "assumed_contracts": sorted(k for k in used if getattr(reg.get(k), "coarse", False)
                                        or getattr(reg.get(k), "trusted", False)),
            "undecided": [u[0] for u in undecided], "known_findings": [k[0] for k in knowns],
            "native_drivers": native, "seed_selftest": selftest,
            "regressed_obligations": [v[0] for v in regressed],
            "crosscheck_cvc5": {"agree": sum(r.get("xc", {}).get("agree", 0) for r in results),
                                "unknown": sum(r.get("xc", {}).get("unknown", 0) for r in results),
                                "disagree": sum(r.get("xc", {}).get("disagree", 0) for r in results)},
            "violations": [v[0] for v in violations] + [v[0] for v in regressed],
            "samples": samples or [{"note": "no discharged obligation"}],
            "explanation": "obligations are named <function>/<KIND>/<anchor>; one obligation = all path VCs of that "
                           "name unsat; generated from /repo/src on this run by symbolic execution of the ast",
        },
        "assumptions": _assumptions(pid),
        "wall_s": round(wall, 2), "violations": len(violations) + len(regressed),
    }
    evdir = os.environ.get("PYVC_EVIDENCE_DIR") or os.path.join(ROOT, "evidence")
    os.makedirs(evdir, exist_ok=True)
    json.dump(ev, open(os.path.join(evdir, "%s.json" % pid), "w"), indent=1)
    print("%s: %d obligations (%d path VCs), %d discharged, %d known findings, %d violations, %d undecided; %.1fs"
          % (pid, n_obl, n_vcs, n_ok, len(knowns), len(violations) + len(regressed), len(undecided), wall))
    _G["last_discharged"] = sorted(n for r in results for n, o in r["obligations"].items() if not o["failed"] and pid in o["props"])
    return rc


def _assumptions(pid):
    base = [
        "pyvc encoding of the Python subset (DESIGN.md 4.2): ints unbounded (exact), floats as reals, str()/int(str)/"
        "lower/strip/basename uninterpreted and shared between code and spec",
        "for-each lifting: a loop body verified for an arbitrary element holds for every element in order",
        "no asynchronous exceptions; no thread interleaving semantics",
        "library models in pyvc/lib.py and specs/*.py marked trusted",
        "class invariants of agent objects hold at call boundaries (visible-state semantics); host code does not modify "
        "agent objects and iterating / reading a host value does not change it (encapsulation)",
        "arguments and results at contracted calls have the declared sorts: the type part is not an obligation of the "
        "caller (DESIGN.md 4.2); instances of subclasses of str/int/float/bool/bytes do not occur",
        "z3 and cvc5 are sound",
    ]
    return base


def _z3v():
    import z3
    return z3.get_version_string()


def write_roles():
    """baseline/roles.json: order of first bindings of the locals and loop texts of every function of the unchanged tree
    (lets contracts that name a local or a loop survive a renaming of locals)"""
    from pyvc.front import local_binding_order, loop_keys
    if not _G:
        _init()
    roles = {}
    for m in _G["idx"].modules.values():
        for fi in m.functions.values():
            roles[fi.key] = {"locals": local_binding_order(fi.node), "loops": loop_keys(fi.node)}
    os.makedirs(os.path.join(ROOT, "baseline"), exist_ok=True)
    json.dump(roles, open(os.path.join(ROOT, "baseline", "roles.json"), "w"), indent=0, sort_keys=True)
    return len(roles)


def main():
    ap = argparse.ArgumentParser()
    ap.add_argument("pid", nargs="?")
    ap.add_argument("--tier", default=os.environ.get("VERIF_TIER", "quick"))
    ap.add_argument("--jobs", type=int, default=min(16, os.cpu_count() or 4))
    ap.add_argument("--replay")
    ap.add_argument("--mkbaseline", action="store_true", help="(development) record the discharged obligations of every claimed property")
    ap.add_argument("--mkroles", action="store_true", help="(development) record locals / loops of the unchanged tree")
    a = ap.parse_args()
    if a.mkroles:
        print("roles written for %d functions" % write_roles())
        sys.exit(0)
    if a.mkbaseline:
        from specs.manifest_table import CHECKS
        bp = os.path.join(ROOT, "baseline", "obligations.json")
        only = [a.pid] if a.pid else None            # `--mkbaseline C11` refreshes one property, keeps the others
        out = json.load(open(bp)) if (only and os.path.exists(bp)) else {}
        for pid in (only or sorted(CHECKS)):
            rc = run_property(pid, "quick", 0, a.jobs)
            if rc != 0:
                print("baseline not written: %s exits %d" % (pid, rc))
                sys.exit(3)
            out[pid] = _G["last_discharged"]
        os.makedirs(os.path.join(ROOT, "baseline"), exist_ok=True)
        json.dump(out, open(os.path.join(ROOT, "baseline", "obligations.json"), "w"), indent=0)
        write_roles()
        print("baseline written: %d obligations" % sum(len(v) for v in out.values()))
        sys.exit(0)
    seed = int(os.environ.get("VERIF_SEED", "0") or 0)
    if a.replay:
        from pyvc.replay import show_replay
        sys.exit(show_replay(a.replay))
    try:
        rc = run_property(a.pid, a.tier if a.tier in ("quick", "thorough") else "quick", seed, a.jobs)
    except Exception:
        traceback.print_exc()
        rc = 3
    sys.exit(rc)


if __name__ == "__main__":
    main()
