"""Per-function verification driver and modular call rule."""
import ast
import os
import time
import z3
from .core import (tkey, Val, VNone, VTrue, VFalse, VInt, VStr, VBool, VRef, I, B, S, ArrIV, ArrVB, ArrVV, IsSub, ClassName,
                   TYPEBASE, ALLOC_BASE, HOST_CLASS_BASE, Unsupported, PathAbort, Explorer, State, Frame, LogEntry,
                   SymCallable, ClassTable, Failure)
from .interp_base import InterpBase, PyRaise, ReturnEx, BreakEx, ContinueEx
from .interp_expr import ExprMixin
from .interp_stmt import StmtMixin
from .interp_call import CallMixin
from .lib import LibMixin
from .contract import SpecCtx, CLASS_INVARIANTS, Contract, P, ANY


class StopPrefix(Exception):
    """The contract under verification only states obligations about the path prefix up to a given call."""


class Interp(LibMixin, CallMixin, StmtMixin, ExprMixin, InterpBase):
    # ------------------------------------------------------------------ obligation names
    def obl_name(self, kind, anchor):
        return "%s/%s/%s" % (self.top.key if self.top is not None else "?", kind, anchor)

    # ------------------------------------------------------------------ symbolic parameters
    def fresh_ref(self, name):
        r = self.ctx.fresh(name, I)
        self.ctx.assume(z3.And(r > 0, r < ALLOC_BASE))
        return r

    def make_param(self, name, p, S_for_inv=None):
        """Fresh symbolic value of the declared sort (class invariants assumed)."""
        ctx, st, t = self.ctx, self.st, self.table
        if p is None or p.kind == "any":
            v = ctx.fresh(name, Val)
            ctx.assume(z3.Implies(Val.is_VRef(v), z3.And(Val.r(v) > 0, Val.r(v) < ALLOC_BASE)))
            # a host value is never one of the agent's own objects, functions or containers
            ctx.assume(z3.Implies(Val.is_VRef(v), self.host_or_builtin_class(z3.Select(st.typeof, Val.r(v)))))
            return v
        if p.kind == "hostobj":
            v = VRef(self.fresh_ref(name))
            ctx.assume(z3.Select(st.typeof, Val.r(v)) >= HOST_CLASS_BASE)
            if p.nullable:
                isnone = ctx.fresh(name + "_isnone", B)
                self._last_nullable = (isnone, v)
                return z3.If(isnone, VNone, v)
            return v
        if p.kind == "int":
            return Val.VInt(ctx.fresh(name, I))
        if p.kind == "str":
            return Val.VStr(ctx.fresh(name, S))
        if p.kind == "bool":
            return Val.VBool(ctx.fresh(name, B))
        if p.kind == "float":
            return Val.VFloat(ctx.fresh(name, z3.RealSort()))
        if p.kind == "none":
            return VNone
        if p.kind == "val":
            return ctx.fresh(name, Val)
        base = None
        if p.kind == "fresh":
            cid = t.ids[p.cls] if p.cls in t.ids else self.index.find_class(p.cls).cid
            base = VRef(st.alloc(cid))
            if p.cls in ("list", "tuple", "deque"):
                ctx.assume(z3.Select(st.llen, Val.r(base)) >= 0)
            if p.cls in ("dict", "OrderedDict"):
                ctx.assume(z3.Select(st.dlen, Val.r(base)) >= 0)
        elif p.kind == "obj":
            r = self.fresh_ref(name)
            base = VRef(r)
            ci = self.index.find_class(p.cls) if p.cls not in t.ids else None
            cid = t.ids[p.cls] if p.cls in t.ids else ci.cid
            if p.subclasses:
                ids = [t.ids[s] if s in t.ids else self.index.find_class(s).cid for s in p.subclasses]
                ctx.assume(z3.Or(*[z3.Select(st.typeof, r) == k for k in ids]))
            else:
                ctx.assume(z3.Select(st.typeof, r) == cid)
            if not getattr(self, "_making_toplevel_params", False):
                # an object handed in from outside after entry (result of a host callback, a module-level object): what it
                # refers to is not something this path allocated
                st.ghost.setdefault("_obj_bounds", {}).setdefault(str(base), ALLOC_BASE)
            if p.inv:
                self.assume_invariant(p.cls, base, p.subclasses)
        elif p.kind in ("list", "tuple"):
            r = self.fresh_ref(name)
            base = VRef(r)
            ctx.assume(z3.Select(st.typeof, r) == t.id("tuple" if p.kind == "tuple" else "list"))
            ctx.assume(z3.Select(st.llen, r) >= 0)
            if p.kind == "tuple" and p.elem is not None:
                ctx.assume(z3.Select(st.llen, r) == len(p.elem))
                for i, ep in enumerate(p.elem):
                    ev = self.make_param("%s_%d" % (name, i), ep)
                    ctx.assume(z3.Select(z3.Select(st.lel, r), i) == ev)
            elif p.elem is not None:
                st.ghost.setdefault("elem_sorts", {})[tkey(base)] = p.elem
        elif p.kind == "seq":
            r = self.fresh_ref(name)
            base = VRef(r)
            ctx.assume(z3.Or(*[z3.Select(st.typeof, r) == t.id(k) for k in ("list", "tuple", "set", "frozenset")]))
            ctx.assume(z3.Select(st.llen, r) >= 0)
        elif p.kind in ("dict", "strdict"):
            r = self.fresh_ref(name)
            base = VRef(r)
            ctx.assume(z3.Select(st.typeof, r) == t.id("dict"))
            ctx.assume(z3.Select(st.dlen, r) >= 0)
            if p.elem is None:
                st.ghost.setdefault("host_data_dicts", []).append(base)
            elif hasattr(p.elem, "kind"):
                st.ghost.setdefault("dict_value_sorts", {})[tkey(base)] = p.elem
                st.ghost.setdefault("agent_dicts", []).append(base)
        elif p.kind == "frame":
            r = self.fresh_ref(name)
            base = VRef(r)
            ctx.assume(z3.Select(st.typeof, r) == t.id("frame"))
        elif p.kind == "callable":
            r = self.fresh_ref(name)
            base = VRef(r)
            ctx.assume(z3.Select(st.typeof, r) == t.id("function"))
            st.ghost.setdefault("sym_callables", {})[tkey(base)] = SymCallable(name, p.spec)
        else:
            raise Unsupported("param kind %s" % p.kind)
        if p.nullable:
            isnone = ctx.fresh(name + "_isnone", B)
            self._last_nullable = (isnone, base)
            return z3.If(isnone, VNone, base)
        return base

    def assume_shape(self, v, p):
        """Assume that an existing value v has the declared sort (typing of list elements / fields)."""
        ctx, st, t = self.ctx, self.st, self.table
        if p is None or p.kind in ("val",):
            return
        conds = []
        if p.kind == "any":
            conds.append(z3.Implies(Val.is_VRef(v), z3.And(Val.r(v) > 0, Val.r(v) < st.next_id,
                                    self.host_or_builtin_class(z3.Select(st.typeof, Val.r(v))))))
        elif p.kind == "hostobj":
            conds.append(z3.And(Val.is_VRef(v), Val.r(v) > 0, Val.r(v) < st.next_id,
                                z3.Select(st.typeof, Val.r(v)) >= HOST_CLASS_BASE))
        elif p.kind == "int":
            conds.append(Val.is_VInt(v))
        elif p.kind == "str":
            conds.append(Val.is_VStr(v))
        elif p.kind == "bool":
            conds.append(Val.is_VBool(v))
        elif p.kind == "obj":
            names = list(p.subclasses) if p.subclasses else [p.cls]
            ids = [t.ids[s] if s in t.ids else self.index.find_class(s).cid for s in names]
            shape = z3.And(Val.is_VRef(v), Val.r(v) > 0, Val.r(v) < st.next_id,
                           z3.Or(*[z3.Select(st.typeof, Val.r(v)) == k for k in ids]))
            conds.append(z3.Or(Val.is_VNone(v), shape) if p.nullable else shape)
        elif p.kind in ("list", "dict", "tuple"):
            cid = t.id({"list": "list", "dict": "dict", "tuple": "tuple"}[p.kind])
            conds.append(z3.And(Val.is_VRef(v), Val.r(v) > 0, Val.r(v) < st.next_id, z3.Select(st.typeof, Val.r(v)) == cid))
        elif p.kind == "callable":
            # an existing value declared to be a callable with the given behaviour (e.g. a plugin class)
            conds.append(z3.And(Val.is_VRef(v), Val.r(v) > 0, Val.r(v) < st.next_id,
                                z3.Select(st.typeof, Val.r(v)) == t.id("function")))
            st.ghost.setdefault("sym_callables", {})[tkey(v)] = SymCallable("callable", p.spec)
        for c_ in conds:
            ctx.assume(c_)
        if p.kind == "obj" and p.inv and not p.nullable:
            self.assume_invariant(p.cls, v, p.subclasses)

    def arg_sort_goal(self, v, p):
        """What a caller owes for an argument of declared sort p: the type part only (class invariants are
        visible-state assumptions).  None: nothing to show."""
        st, t = self.st, self.table
        if p is None or p.kind in ("val", "any", "attrval", "callable", "fresh"):
            return None
        isref = lambda *names: z3.And(Val.is_VRef(v), z3.Or(*[z3.Select(st.typeof, Val.r(v)) == t.id(n) for n in names]))
        if p.kind == "int":
            g = Val.is_VInt(v)
        elif p.kind == "str":
            g = Val.is_VStr(v)
        elif p.kind == "bool":
            g = Val.is_VBool(v)
        elif p.kind == "float":
            g = Val.is_VFloat(v)
        elif p.kind == "none":
            g = Val.is_VNone(v)
        elif p.kind == "list":
            g = isref("list")
        elif p.kind == "tuple":
            g = isref("tuple")
        elif p.kind == "seq":
            g = isref("list", "tuple", "set", "frozenset")
        elif p.kind in ("dict", "strdict"):
            g = isref("dict", "OrderedDict")
        elif p.kind == "frame":
            g = isref("frame")
        elif p.kind == "hostobj":
            g = z3.And(Val.is_VRef(v), z3.Select(st.typeof, Val.r(v)) >= HOST_CLASS_BASE)
        elif p.kind == "obj":
            names = list(p.subclasses) if p.subclasses else [p.cls]
            ids = [t.ids[s_] if s_ in t.ids else self.index.find_class(s_).cid for s_ in names]
            g = z3.And(Val.is_VRef(v), z3.Or(*[z3.Select(st.typeof, Val.r(v)) == k for k in ids]))
        else:
            return None
        return z3.Or(Val.is_VNone(v), g) if p.nullable else g

    def reassume_invariants(self):
        """After a coarse havoc the class invariants of the objects this path knows hold again (visible states);
        they are re-assumed lazily, when such an object is next used (see touch_object)."""
        self.st.ghost["_inv_done"] = set()
        self.st.ghost["_tag_cache"] = {}
        self.st.ghost["_inv_index"] = {key[1]: (clsname, v, sub) for key, (clsname, v, sub) in
                                       self.st.ghost.get("_inv_objs", [])}

    def touch_object(self, v):
        idx = self.st.ghost.get("_inv_index")
        if not idx:
            return
        ent = idx.get(str(v))
        if ent is not None:
            self.assume_invariant(*ent)

    def host_or_builtin_class(self, c):
        t = self.table
        builtin_ok = [t.id(n) for n in ("dict", "list", "tuple", "set", "frozenset", "bytes", "object", "deque",
                                         "function", "generator", "type", "module")]
        exc_ids = [k for k in t.known_ids() if k < 200 and t.issub(k, t.id("BaseException"))]
        return z3.Or(c >= HOST_CLASS_BASE, *[c == k for k in builtin_ok + exc_ids])

    def assume_invariant(self, clsname, v, subclasses=None):
        done = self.st.ghost.setdefault("_inv_done", set())
        key = (clsname, str(v))
        if key in done:
            return
        done.add(key)
        objs = self.st.ghost.setdefault("_inv_objs", [])
        if not any(k == key for k, _ in objs):
            objs.append((key, (clsname, v, subclasses)))
        names = [clsname] + list(subclasses or [])
        # objects reachable from the pre-state exist before anything this path allocates; objects constructed on
        # this path may refer to what existed when their construction finished
        bounds = self.st.ghost.setdefault("_obj_bounds", {})
        if self.st.ghost.get("_constructing", {}).get(str(v)):
            # an object still being constructed by the function under verification: what it refers to may have been
            # created by that very function (everything allocated so far "exists already" for it)
            self.st.ghost["_pre_bound"] = self.st.next_id
        else:
            # at entry the objects reachable from the parameters all exist already; once calls have been made (their
            # effects havocked, invariants re-assumed) a field may also hold something created on the way
            dflt = self.st.next_id if self.st.ghost.get("_inv_index") is not None else ALLOC_BASE
            self.st.ghost["_pre_bound"] = bounds.get(str(v), bounds.get(str(z3.simplify(v)), dflt))
            if self.st.ghost["_pre_bound"] > ALLOC_BASE:
                priv = sorted(r for r in self.st.fresh_refs if r not in self.st.escaped and r < self.st.ghost["_pre_bound"])
                self.st.ghost["_pre_exclude"] = priv[-80:]
        S_ = SpecCtx(self, self.top, {}, self.st.snapshot())
        for nm in names:
            inv = CLASS_INVARIANTS.get(nm)
            if inv is not None:
                g = inv(S_, v)
                if subclasses and nm != clsname:
                    g = z3.Implies(S_.new.typeof(v) == S_.cid(nm), g)
                self.ctx.assume(g)
        self.st.ghost["_pre_bound"] = None
        self.st.ghost["_pre_exclude"] = None

    # ------------------------------------------------------------------ havoc
    def apply_havoc(self, items):
        st, ctx = self.st, self.ctx
        for it in items or []:
            k = it[0]
            if k == "field":
                _, obj, qual = it
                name = SpecCtx.mangled(None, qual) if False else _mangled(qual)
                st.fields[name] = z3.Store(st.field_arr(name), Val.r(obj), ctx.fresh("hv_" + name, Val))
            elif k == "field*":
                name = _mangled(it[1])
                st.fields[name] = ctx.fresh("hvF_" + name, ArrIV)
            elif k == "list":
                r = Val.r(it[1])
                st.lel = z3.Store(st.lel, r, ctx.fresh("hv_lel", ArrIV))
                n = ctx.fresh("hv_llen", I)
                ctx.assume(n >= 0)
                st.llen = z3.Store(st.llen, r, n)
            elif k == "list*":
                st.llen = ctx.fresh("hvLLen", st.llen.sort())
                st.lel = ctx.fresh("hvLEl", st.lel.sort())
            elif k == "dict":
                r = Val.r(it[1])
                st.dhas = z3.Store(st.dhas, r, ctx.fresh("hv_dhas", ArrVB))
                st.dval = z3.Store(st.dval, r, ctx.fresh("hv_dval", ArrVV))
                n = ctx.fresh("hv_dlen", I)
                ctx.assume(n >= 0)
                st.dlen = z3.Store(st.dlen, r, n)
            elif k == "dict*":
                st.dhas = ctx.fresh("hvDHas", st.dhas.sort())
                st.dval = ctx.fresh("hvDVal", st.dval.sort())
                st.dlen = ctx.fresh("hvDLen", st.dlen.sort())
            elif k == "ghost":
                st.ghost[it[1]] = it[2](ctx) if len(it) > 2 else None
            elif k == "global":
                st.globals_store[it[1]] = ctx.fresh("hv_glob", Val)
            elif k == "all":
                self.havoc_all_heap()
            else:
                raise Unsupported("havoc item %s" % (k,))

    def record_modifies_as_writes(self, items):
        for it in items or []:
            k = it[0]
            if k == "field":
                self.st.writes.append(("field", Val.r(it[1]), _mangled(it[2])))
            elif k == "field*":
                self.st.writes.append(("field*", None, _mangled(it[1])))
            elif k == "list":
                self.st.writes.append(("list", Val.r(it[1]), None))
            elif k == "dict":
                self.st.writes.append(("dict", Val.r(it[1]), None))
            elif k in ("list*", "dict*", "all"):
                self.st.writes.append((k, None, None))
            elif k == "global":
                self.st.writes.append(("global", None, it[1]))

    # ------------------------------------------------------------------ modular call rule
    def make_result(self, p, name="res"):
        return self.make_param(name, p)

    def apply_contract(self, c, fi, bound, node, anchor):
        if isinstance(c, Contract) and c.trusted:
            self.used_trusted.add(c.key)
        self.used_contracts.add(c.key)
        # visible-state semantics: class invariants of declared object parameters hold at call boundaries
        for nm, p in c.params.items():
            if p is not None and p.kind == "obj" and nm in bound and not (fi.name == "__init__" and nm == "self"):
                self.assume_shape(bound[nm], p)
        old = self.st.snapshot()
        S_ = SpecCtx(self, c, bound, old)
        S_.at_call = True
        S_.proving = True
        # the callee's body is verified for arguments of the declared sorts: the caller owes them
        if ARG_SORTS:
            for nm, p in c.params.items():
                if nm in bound and not (fi.name == "__init__" and nm == "self"):
                    g = self.arg_sort_goal(bound[nm], p)
                    if g is not None:
                        self.ctx.oblige(self.obl_name("PRE", "%s/arg:%s" % (anchor, nm)), "PRE", g,
                                        detail="argument `%s` of %s has the declared sort %s" % (nm, c.key, p.kind))
        for cl in c.requires:
            if getattr(cl, "new_object_fact", False) and fi.name == "__init__":
                self.ctx.assume(cl.fn(S_))
                continue
            self.ctx.oblige(self.obl_name("PRE", "%s/%s" % (anchor, cl.label)), "PRE", cl.fn(S_),
                            detail="precondition `%s` of %s" % (cl.label, c.key))
        S_.proving = False
        mods = c.modifies(S_) if c.modifies else []
        # an argument escapes (may be kept by someone else from now on) when the callee may modify anything; a callee
        # with an explicit frame can only keep it in what that frame lists - the objects it modifies themselves stay ours
        if any(m[0] in ("all", "field*", "list*", "dict*") for m in mods):
            own = None
            if fi.name == "__init__" and fi.node.args.args:
                own = bound.get(fi.node.args.args[0].arg)      # a constructor does not give away the object it constructs
            self.st.mark_escaped(*[v for v in bound.values() if v is not own])
        elif mods:
            targets = [z3.simplify(m[1]) for m in mods if len(m) > 1 and z3.is_expr(m[1])]
            self.st.mark_escaped(*[v for v in bound.values()
                                   if not any(z3.simplify(v).eq(t) for t in targets)])
        # alternatives: normal return, or one of the declared signals
        conds = [z3.BoolVal(True)]
        for sg in c.signals:
            conds.append(sg.cond(S_) if sg.cond is not None else z3.BoolVal(True))
        normal_cond = getattr(c, "normal_cond", None)
        if normal_cond is not None:
            conds[0] = normal_cond(S_)
        k = self.ctx.choose(conds, "outcome of %s" % c.key)
        self.apply_havoc(mods)
        self.record_modifies_as_writes(mods)
        if k == 0:
            res = self.make_result(c.result, "res_%s" % fi.name) if not callable(c.result) else c.result(S_)
            S_.result = res
            for cl in c.ensures:
                self.ctx.assume(cl.fn(S_))
            if getattr(c.result, "kind", None) == "fresh" and c.result.nullable:
                # decide None / object now (after the postcondition): the result stays a concrete reference
                isnone, base = self._last_nullable
                res = VNone if self.ctx.branch(isnone, "fresh result is None") else base
                S_.result = res
            # whatever the callee allocated (its result, the parts of its result) may be referred to by anything the
            # callee could reach: these objects are not private to this path
            for rid_ in range(old.next_id, min(self.st.next_id, old.next_id + 4096)):
                self.st.escaped.add(rid_)
            # an object created by the callee exists from now on: what its invariant calls "already existing" is
            # everything allocated up to this point (not only what existed when the verified function was entered)
            try:
                rs_ = z3.simplify(res)
                if z3.is_app(rs_) and rs_.decl().name() == "VRef" and z3.is_int_value(rs_.arg(0)) and \
                        rs_.arg(0).as_long() >= old.next_id:
                    self.st.ghost.setdefault("_obj_bounds", {}).setdefault(str(rs_), self.st.next_id)
            except z3.Z3Exception:
                pass
            if c.logged:
                le = LogEntry(c.logged, [bound[n] for n in _param_order(fi)], {}, res, anchor)
                le.pre = old          # heap at the time of the call
                self.st.log.append(le)
                if self.top is not None and getattr(self.top, "stop_after", None) == c.logged:
                    raise StopPrefix()
            return res
        sg = c.signals[k - 1]
        if c.logged:
            self.st.log.append(LogEntry(c.logged, [bound[n] for n in _param_order(fi)], {}, None, anchor, raised=True))
        cid = self.table.ids.get(sg.exc)
        if cid is None:
            cid = self.index.find_class(sg.exc).cid
        if sg.exact:
            exc = self.new_exc(cid)
        else:
            cc = self.ctx.fresh("exccls", I)
            for a in self.table.exc_closure(cc):
                self.ctx.assume(a)
            self.ctx.assume(IsSub(cc, z3.IntVal(cid)))
            exc = VRef(self.st.alloc(cc))
        S_.exc = exc
        if sg.post is not None:
            self.ctx.assume(sg.post(S_))
        raise PyRaise(exc, anchor)


def _mangled(qual):
    from .front import mangle
    if "." in qual:
        cls, attr = qual.rsplit(".", 1)
        return mangle(attr, cls.split(".")[-1])
    return qual


def _param_order(fi):
    a = fi.node.args
    return [x.arg for x in a.posonlyargs + a.args] + ([a.vararg.arg] if a.vararg is not None else [])


# ----------------------------------------------------------------------------- verification of one contract
class FunctionResult:
    def __init__(self, contract_):
        self.contract = contract_
        self.key = contract_.key
        self.status = "ok"            # ok | undecided | error
        self.reason = ""
        self.obligations = {}         # name -> dict(kind, vcs, failed, time, props)
        self.paths = 0
        self.solver_time = 0.0
        self.wall = 0.0
        self.sha256 = ""
        self.inlined = set()
        self.used_contracts = set()
        self.used_trusted = set()
        self.exits = {"return": 0, "raise": 0}
        self.vacuous = False
        self.canary_ok = None


ARG_SORTS = os.environ.get("PYVC_ARGSORT", "0") == "1"


def verify_contract(index, table, contracts, c, axioms, timeout_ms=10000, max_paths=4000):
    t0 = time.time()
    res = FunctionResult(c)
    fi = index.function(c.file, c.qual)
    if fi is None:
        res.status = "undecided"
        res.reason = "function %s not found in %s" % (c.qual, c.file)
        return res
    res.sha256 = fi.sha256()
    z3.set_param("smt.relevancy", getattr(c, "relevancy", 2))     # per contract (2 = z3 default)
    ex = Explorer(axioms, timeout_ms=timeout_ms, max_paths=c.max_paths or max_paths)
    prop_of = {}

    def tag_props(name, props):
        prop_of.setdefault(name, set()).update(props or c.props)

    matched_specs = set()

    def run_one(ctx):
        st = State(ctx, table)
        it = Interp(index, table, contracts, ctx, st, top=c)
        fr = Frame(fi, None, fi.cls, module=fi.module)
        it.frames.append(fr)
        # closures of nested functions under verification: captured names come from contract params
        a = fi.node.args
        names = [x.arg for x in a.posonlyargs + a.args]
        if a.vararg is not None:
            names.append(a.vararg.arg)
        if a.kwarg is not None:
            names.append(a.kwarg.arg)
        bound = {}
        it._making_toplevel_params = True
        for nm in list(c.params) + [n for n in names if n not in c.params]:
            p = c.params.get(nm)
            bound[nm] = it.make_param(nm, p)
        it._making_toplevel_params = False
        for nm, p_ in c.params.items():
            if p_ is not None and p_.kind == "obj" and not p_.inv and nm in bound:
                st.ghost.setdefault("_constructing", {})[str(bound[nm])] = True
        for nm in names:
            fr.locals[nm] = bound[nm]
        for nm in c.params:
            if nm not in names:
                fr.locals[nm] = bound[nm]      # captured (closure) variables
        old = st.snapshot()
        S_ = SpecCtx(it, c, bound, old)
        if c.init_ghost is not None:
            c.init_ghost(S_)
        if getattr(c, "protects", None) is not None:
            st.ghost["protected"] = c.protects(S_)
        for cl in c.requires:
            ctx.assume(cl.fn(S_))
        old = st.snapshot()
        S_.old.snap = old
        S_.log_start = len(st.log)
        st.writes = []
        exit_kind, value, exc_origin = None, None, None
        is_gen = any(isinstance(n, (ast.Yield, ast.YieldFrom)) for n in ast.walk(fi.node)
                     if not isinstance(n, (ast.FunctionDef, ast.Lambda)) or n is fi.node)
        if is_gen:
            st.ghost.setdefault("yields", []).append([])
        try:
            try:
                it.exec_block(fi.node.body)
                exit_kind, value = "return", (it.generator_result(st.ghost["yields"][-1]) if is_gen else VNone)
            except Unsupported:
                # a path refuted by the quantified lemmas is dead: whatever went wrong on it is irrelevant
                if ctx.lemmas and ctx._prove_unsat(quick=True) == z3.unsat:
                    raise PathAbort("dead path (refuted by lemmas)")
                raise
            except ReturnEx as r:
                exit_kind, value = "return", (it.generator_result(st.ghost["yields"][-1]) if is_gen else r.value)
            except StopPrefix:
                exit_kind, value = "prefix", VNone
            except PyRaise as pr:
                exit_kind, value, exc_origin = "raise", pr.exc, pr.origin
            except (BreakEx, ContinueEx):
                raise Unsupported("break/continue outside loop")
        finally:
            res.inlined |= it.inlined
            res.used_contracts |= it.used_contracts
            res.used_trusted |= it.used_trusted
            matched_specs.update(it.matched_loop_specs)
        res.exits[exit_kind] = res.exits.get(exit_kind, 0) + 1
        if exit_kind == "prefix":
            for fn in c.exit_checks:
                for (label, kind, goal, props) in fn(S_, exit_kind) or []:
                    nm = it.obl_name(kind, label)
                    tag_props(nm, props)
                    ctx.oblige(nm, kind, goal, meta={"exit": exit_kind})
            return
        S_.proving = True
        if exit_kind == "return":
            S_.result = value
            for cl in c.ensures:
                nm = it.obl_name("POST", cl.label)
                tag_props(nm, cl.props)
                ctx.oblige(nm, "POST", cl.fn(S_), meta={"exit": "return"})
        else:
            S_.exc = value
            allowed = []
            for sg in c.signals:
                cid = table.ids.get(sg.exc)
                if cid is None:
                    cid = index.find_class(sg.exc).cid
                g = it.exc_isa(value, cid)
                if sg.cond is not None:
                    S_old = SpecCtx(it, c, bound, old)
                    S_old.new = S_old.old
                    g = z3.And(g, sg.cond(S_old))
                if sg.post is not None:
                    g = z3.And(g, sg.post(S_))
                allowed.append(g)
            nm = it.obl_name("SIG", exc_origin)
            tag_props(nm, c.sig_props)
            ctx.oblige(nm, "SIG", z3.Or(*allowed) if allowed else z3.BoolVal(False),
                       meta={"exit": "raise", "origin": exc_origin},
                       detail="an exception raised at %s escapes %s" % (exc_origin, c.key))
        # FRAME: every write to a pre-existing object must be covered by `modifies`
        mods = c.modifies(S_) if c.modifies else []
        check_frame(it, ctx, c, mods, tag_props)
        for fn in c.exit_checks:
            for (label, kind, goal, props) in fn(S_, exit_kind) or []:
                nm = it.obl_name(kind, label)
                tag_props(nm, props)
                ctx.oblige(nm, kind, goal, meta={"exit": exit_kind})

    try:
        ex.run(run_one)
    except Unsupported as u:
        res.status = "undecided"
        res.reason = "unsupported: %s" % u
    except z3.Z3Exception as z:
        res.status = "error"
        res.reason = "z3: %s" % z
    res.paths = ex.n_paths
    res.by_backend = dict(ex.by_backend)
    res.notes = ex.notes
    res.solver_time = ex.solver_time
    for name, o in ex.obligations.items():
        o["props"] = sorted(prop_of.get(name, set(c.props)))
        # discharged only on impossible paths = not checked (a goal that is literally False - "this point must not be
        # reached" - is the exception: it can only ever be discharged by the path being impossible)
        o["vacuous"] = (not o["failed"]) and o.get("live", 1) == 0 and not o.get("const_false", False)
        res.obligations[name] = o
    unmatched = [k for k in c.loop_specs if k not in matched_specs]
    if res.status == "ok" and unmatched:
        # the loop a loop contract talks about is not in the code (any more): what it guaranteed is no longer checked
        res.status = "undecided"
        res.reason = "loop contract(s) %s match no loop of the function: the contract has to be revisited" % (
            ", ".join(str(k) for k in unmatched))
    if res.status == "ok" and sum(res.exits.values()) == 0:
        res.vacuous = True
        res.status = "undecided"
        res.reason = "vacuous: no feasible path reaches an exit (contradictory requires?)"
    res.wall = time.time() - t0
    return res


def check_frame(it, ctx, c, mods, tag_props):
    st = it.st
    allowed_fields = {}
    allow_field_all = set(_mangled(m[1]) for m in mods if m[0] == "field*")
    allow_lists = [Val.r(m[1]) for m in mods if m[0] == "list"]
    allow_dicts = [Val.r(m[1]) for m in mods if m[0] == "dict"]
    allow_globals = set(m[1] for m in mods if m[0] == "global")
    for m in mods:
        if m[0] == "field":
            allowed_fields.setdefault(_mangled(m[2]), []).append(Val.r(m[1]))
    anyall = any(m[0] == "all" for m in mods)
    all_lists = any(m[0] == "list*" for m in mods)
    all_dicts = any(m[0] == "dict*" for m in mods)
    seen = set()
    for (kind, ref, name) in st.writes:
        if anyall:
            break
        key = (kind, str(ref), name)
        if key in seen:
            continue
        seen.add(key)
        if ref is not None:
            r = z3.simplify(ref)
            if z3.is_int_value(r) and r.as_long() >= ALLOC_BASE:
                continue      # object allocated by this call
            fresh = ref >= ALLOC_BASE
        else:
            fresh = z3.BoolVal(False)
        if kind == "field":
            if name in allow_field_all or name in c.frame_exempt:
                continue
            goal = z3.Or(fresh, *[ref == a for a in allowed_fields.get(name, [])])
            label = "field:%s" % name
        elif kind == "field*":
            if name in allow_field_all:
                continue
            goal, label = z3.BoolVal(False), "field*:%s" % name
        elif kind == "list":
            if all_lists:
                continue
            goal, label = z3.Or(fresh, *[ref == a for a in allow_lists]), "list"
        elif kind == "dict":
            if all_dicts:
                continue
            goal, label = z3.Or(fresh, *[ref == a for a in allow_dicts]), "dict"
        elif kind == "global":
            if name in allow_globals:
                continue
            goal, label = z3.BoolVal(False), "global:%s" % name
        elif kind in ("list*", "dict*", "all"):
            if (kind == "list*" and all_lists) or (kind == "dict*" and all_dicts):
                continue
            goal, label = z3.BoolVal(False), kind
        else:
            continue
        nm = it.obl_name("FRAME", label)
        tag_props(nm, c.frame_props)
        ctx.oblige(nm, "FRAME", goal, detail="write outside the declared frame (%s)" % label)


def build_axioms(table):
    return table.axioms()
