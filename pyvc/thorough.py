"""Thorough tier extras (on top of the proof run with the larger solver budget):

1. native drivers: every replay driver that belongs to the property is run on /repo's working tree with CPython.  A
   driver that observes the violated clause on the real code is a violation *with* a failing input, whatever the
   prover said (cross-check of the encoding against CPython).
2. second back end: with PYVC_CROSSCHECK=1 (set by the thorough tier) every quantifier-free path VC that z3 refuted is
   sent to cvc5 as well; a disagreement makes the obligation undecided (never a pass).
3. sensitivity self-test: every seeded change recorded under /verif/seeded that this property's check is listed to
   catch is applied to a scratch copy of the working tree (outside /repo and /verif, removed afterwards) and the
   quick check is run on the copy; it must report a violation.  Misses are printed (SELFTEST-MISS) and recorded in
   the evidence; they do not change the verdict about the property.
"""
import json
import os
import shutil
import subprocess
import sys
import tempfile

ROOT = os.path.dirname(os.path.dirname(os.path.abspath(__file__)))


def drivers_for(pid):
    from pyvc.replay import _drivers_props
    return [s for s, props in _drivers_props().items() if pid in props]


def run_native_drivers(pid):
    """-> list of (script, exit code, output)"""
    from pyvc.replay import run_driver
    out = []
    for script in sorted(drivers_for(pid)):
        try:
            rc, txt = run_driver(script)
        except Exception as e:
            rc, txt = None, "driver error: %s" % e
        out.append((script, rc, txt))
    return out


def seeds_for(pid):
    out = []
    base = os.path.join(ROOT, "seeded")
    for d in sorted(os.listdir(base)) if os.path.isdir(base) else []:
        meta = os.path.join(base, d, "meta.json")
        if not os.path.exists(meta):
            continue
        try:
            m = json.load(open(meta))
        except Exception:
            continue
        if m.get("neutralised"):
            continue
        # `caught_by` recorded (selftest/update_meta.py): the checks that report this seed; an empty list = no check does
        # (kept as documentation of a limit, not re-run); not recorded yet: the check of the seed's own property
        caught_by = m["caught_by"] if isinstance(m.get("caught_by"), list) else [m.get("property")]
        if pid in caught_by:
            patch = os.path.join(base, d, "patch_on_fixed_tree.diff")
            if not os.path.exists(patch):
                patch = os.path.join(base, d, "patch.diff")
            out.append((d, patch))
    return out


def run_seed_selftest(pid, repo_root="/repo"):
    """-> list of dict(seed, applied, rc, detected)"""
    res = []
    seeds = seeds_for(pid)
    if not seeds:
        return res
    for name, patch in seeds:
        tmp = tempfile.mkdtemp(prefix="pyvc_seed_")
        try:
            shutil.copytree(os.path.join(repo_root, "src"), os.path.join(tmp, "src"))
            p = subprocess.run(["patch", "-p1", "-s", "-f", "-i", patch], cwd=tmp, capture_output=True, text=True)
            if p.returncode != 0:
                res.append({"seed": name, "applied": False, "note": (p.stdout + p.stderr)[-300:]})
                continue
            env = dict(os.environ, PYVC_REPO_SRC=os.path.join(tmp, "src"), PYVC_EVIDENCE_DIR=os.path.join(tmp, "evidence"),
                       PYVC_REPLAY_DIR=os.path.join(tmp, "replay"), PYVC_NO_THOROUGH_EXTRAS="1")
            q = subprocess.run([sys.executable, "-m", "pyvc.cli", pid, "--tier", "quick"], cwd=ROOT, env=env,
                               capture_output=True, text=True, timeout=3600)
            viol = [l for l in q.stdout.splitlines() if l.startswith("VIOLATION ")]
            res.append({"seed": name, "applied": True, "rc": q.returncode, "detected": q.returncode == 1 and bool(viol),
                        "violations": len(viol), "last": q.stdout.strip().splitlines()[-1:]})
        except Exception as e:
            res.append({"seed": name, "applied": None, "note": "self-test error: %s" % e})
        finally:
            shutil.rmtree(tmp, ignore_errors=True)
    return res
