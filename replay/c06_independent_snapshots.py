"""Replay for SnapshotActionContext._process_action/LOG/snapshot-starts-from-its-own-empty-table-and-cache:
two snapshot tracepoints on one line must each deliver a complete snapshot.  Exit 1 = violated."""
import sys, types
from deep.api.tracepoint.trigger import build_trigger
from deep.processor.trigger_handler import TriggerHandler


class Cfg:
    NO_TRACE = False
    plugins = []
    def add_listener(self, l): pass
    has_span_processor = False
    has_metric_processor = False
    span_processors = ()
    metric_processors = ()
    snapshot_decorators = ()
    tracepoint_logger = None
    resource = __import__("deep.api.resource", fromlist=["Resource"]).Resource.create()
    def is_app_frame(self, f): return False, None


class Push:
    def __init__(self): self.sent = []
    def push_snapshot(self, s): self.sent.append(s)


src = "def target(x):\n    data = {'k': [1, 2, 3]}\n    name = 'bob'\n    return x\n"
mod = types.ModuleType("hostmod2")
exec(compile(src, "hostmod2.py", "exec"), mod.__dict__)
push = Push()
h = TriggerHandler(Cfg(), push)
t1 = build_trigger("tp-1", "hostmod2.py", 4, {}, [], [])
t2 = build_trigger("tp-2", "hostmod2.py", 4, {}, ["name"], [])
t1.merge_actions(t2.actions)
h.new_config([t1])
sys.settrace(h.trace_call)
try:
    mod.target(5)
finally:
    sys.settrace(None)
bad = []
if len(push.sent) != 2:
    bad.append("expected 2 snapshots, got %d" % len(push.sent))
tables = [id(s.var_lookup) for s in push.sent]
if len(set(tables)) != len(tables):
    bad.append("the two snapshots share one variable table object")
for s in push.sent:
    names = sorted(v.name for v in s.frames[0].variables)
    if names != ["data", "name", "x"]:
        bad.append("snapshot of %s: top frame variables %s instead of data/name/x" % (s.tracepoint.id, names))
    refs = [v.vid for v in s.frames[0].variables] + [w.result.vid for w in s.watches if w.result is not None]
    for r in refs:
        if r not in s.var_lookup:
            bad.append("snapshot of %s: reference %s does not resolve in its own table" % (s.tracepoint.id, r))
for b in bad:
    print("REPRODUCED:", b)
sys.exit(1 if bad else 0)
