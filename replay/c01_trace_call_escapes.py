"""Replay for C01 SIG obligations of TriggerHandler.trace_call / FunctionLocation.at_location /
__process_call_backs: a failure inside the agent is raised into application code and/or tracing is switched
off for the thread.  Scenarios (each run under the real sys.settrace with the real TriggerHandler):
  A  method tracepoint without method_name on code compiled from a string (inspect.getsourcelines -> OSError)
  B  a span whose close() raises (plugin failure inside the callback processing)
  C  after B, the next events of the same thread
Exit 1 = reproduced on the real code."""
import sys, types
from deep.api.tracepoint.trigger import build_trigger
from deep.processor.trigger_handler import TriggerHandler
from deep.api.plugin.span import SpanProcessor


class Cfg:
    NO_TRACE = False
    def __init__(self): self.plugins = []; self.listeners = []
    def add_listener(self, l): self.listeners.append(l)
    @property
    def has_span_processor(self): return any(isinstance(p, SpanProcessor) for p in self.plugins)
    @property
    def span_processors(self): return (p for p in self.plugins if isinstance(p, SpanProcessor))
    @property
    def has_metric_processor(self): return False
    @property
    def metric_processors(self): return iter(())
    @property
    def snapshot_decorators(self): return iter(())
    @property
    def tracepoint_logger(self): return None
    @property
    def resource(self): return None
    def is_app_frame(self, f): return False, None


class Push:
    def push_snapshot(self, s): pass


class BadSpan:
    def close(self): raise RuntimeError("span backend down")


class BadSpans(SpanProcessor):
    def __init__(self): pass
    def create_span(self, name, ctx_id, tp_id): return BadSpan()
    def current_span(self): return None


def run(handler, fn):
    """Run fn under the handler's trace function; report (exception raised into the host, tracing still on)."""
    escaped = None
    sys.settrace(handler.trace_call)
    try:
        try:
            fn()
        except BaseException as e:       # noqa
            escaped = e
        still_on = sys.gettrace() is not None
    finally:
        sys.settrace(None)
    return escaped, still_on


bad = []
src = "def target(x):\n    y = x + 1\n    return y\n"
mod = types.ModuleType("hostmod")
exec(compile(src, "hostmod_from_string.py", "exec"), mod.__dict__)

# --- A
cfg = Cfg(); h = TriggerHandler(cfg, Push())
h.new_config([build_trigger("tp-a", "hostmod_from_string.py", 2, {"stage": "method_start"}, [], [])])
esc, on = run(h, lambda: mod.target(1))
if esc is not None:
    bad.append("A: %r raised into the application by a method tracepoint without method_name on string-compiled code" % (esc,))
if not on:
    bad.append("A: tracing switched off for the thread")

# --- B / C
cfg = Cfg(); cfg.plugins = [BadSpans()]; h = TriggerHandler(cfg, Push())
h.new_config([build_trigger("tp-b", "hostmod_from_string.py", 2, {"span": "line", "snapshot": "no_collect"}, [], [])])
esc, on = run(h, lambda: mod.target(1))
if esc is not None:
    bad.append("B: %r (a span's close() failing) raised into the application" % (esc,))
if not on:
    bad.append("B: tracing switched off for the thread after a callback failed")
esc, on = run(h, lambda: mod.target(2))
if esc is not None:
    bad.append("C: next call on the same thread: %r raised into the application (callback store left inconsistent)" % (esc,))
for b in bad:
    print("REPRODUCED:", b)
sys.exit(1 if bad else 0)
