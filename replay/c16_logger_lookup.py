"""Replay for ConfigService.tracepoint_logger (C16: the message goes to the *configured* tracepoint logger): the logger
is the first TracepointLogger among the plugins loaded now - also after the plugin list was replaced - and None when
there is none.  Exit 1 = violated on the real code."""
import sys
from deep.config.config_service import ConfigService
from deep.api.plugin import TracepointLogger
bad = []


class L(TracepointLogger):
    def __init__(self, tag):
        self.tag = tag

    def log_tracepoint(self, log_msg, tp_id, ctx_id):
        pass


class Other:
    pass


cfg = ConfigService({})
if cfg.tracepoint_logger is not None:
    bad.append("no plugin loaded, logger is %r" % (cfg.tracepoint_logger,))
a, b = L("a"), L("b")
cfg.plugins = [Other(), a]
if cfg.tracepoint_logger is not a:
    bad.append("plugins [other, a]: logger is %r, expected a" % (cfg.tracepoint_logger,))
cfg.plugins = [b, a]
if cfg.tracepoint_logger is not b:
    bad.append("plugin list replaced by [b, a]: logger is still %r, expected b" % (getattr(cfg.tracepoint_logger, "tag", cfg.tracepoint_logger),))
cfg.plugins = []
if cfg.tracepoint_logger is not None:
    bad.append("plugin list emptied: logger is still %r" % (getattr(cfg.tracepoint_logger, "tag", cfg.tracepoint_logger),))
for x in bad:
    print("REPRODUCED:", x)
sys.exit(1 if bad else 0)
