"""Replay for Plugin.is_active / load_plugins obligations: a plugin switch given in code as a non-text value (True / False / 0)
must be read like its text form: a plugin switched ON must be loaded, one switched OFF skipped, and is_active must not fail.
Exit 1 = violated on the real code."""
import sys
import types
from deep.config import ConfigService
from deep.api.plugin import load_plugins, Plugin

bad = []


class P1(Plugin):
    pass


m = types.ModuleType("pyvc_replay_plug")
m.P1 = P1
sys.modules["pyvc_replay_plug"] = m
for val, want in (("False", False), ("false", False), ("True", True), (None, True), (True, True), (False, False), (0, False), (1, True)):
    cfg = ConfigService({"PLUGIN_P1": val})
    try:
        got = P1(config=cfg).is_active()
        if bool(got) != want:
            bad.append("PLUGIN_P1=%r: is_active() -> %r, expected %r" % (val, got, want))
    except Exception as e:
        bad.append("PLUGIN_P1=%r: is_active() raised %r" % (val, e))
    loaded = [type(x).__name__ for x in load_plugins(cfg, ["pyvc_replay_plug.P1"])]
    if ("P1" in loaded) != want:
        bad.append("PLUGIN_P1=%r: plugin %s although it is switched %s" % (val, "loaded" if "P1" in loaded else "skipped",
                                                                           "on" if want else "off"))
for b in bad:
    print("REPRODUCED:", b)
sys.exit(1 if bad else 0)
