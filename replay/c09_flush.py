"""Replay for TaskHandler.flush/SIG/*: flush returns normally whether pending tasks succeed or fail. Exit 1 = violated."""
import sys, time
from deep.task import TaskHandler
bad = []
h = TaskHandler()
def slow_fail():
    time.sleep(0.3)
    raise ValueError("delivery failed")
h.submit_task(slow_fail)
h.submit_task(lambda: None)
try:
    h.flush()
except BaseException as e:     # noqa
    bad.append("flush() re-raised the error of a task that was still running: %r" % (e,))
try:
    h.submit_task(lambda: None)
    bad.append("a task submitted after flush() was accepted silently")
except BaseException:          # noqa
    pass
for b in bad:
    print("REPRODUCED:", b)
sys.exit(1 if bad else 0)
