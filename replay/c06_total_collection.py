"""Replay for C06 SIG obligations of the variable-processing functions: whatever is bound to the frame's
locals, a snapshot's variable table is produced with a placeholder for the offender.  Exit 1 = violated."""
import sys, datetime, collections, enum
from deep.processor.variable_set_processor import VariableSetProcessor, VariableCacheProvider, VariableProcessorConfig


class Color(enum.Enum):
    RED = 1


class Slotted:
    __slots__ = ("a",)
    def __init__(self): self.a = 1


class BadStr:
    def __str__(self): raise RuntimeError("no text for you")


class BadGetattr:
    def __getattr__(self, item): raise ValueError("no attribute access")


class list(object):     # noqa: a user type that is only *named* like a builtin collection
    pass


CASES = {
    "bytes": b"abc", "datetime": datetime.datetime(2020, 1, 1), "deque": collections.deque([1]), "enum": Color.RED,
    "object": object(), "complex": 1j, "generator": (i for i in range(3)), "slotted": Slotted(),
    "int-keyed dict": {1: "a", (2, 3): "b"}, "raising __str__": BadStr(), "raising __getattr__": BadGetattr(),
    "class named list": list(),
}
bad = []
for label, value in CASES.items():
    table = {}
    proc = VariableSetProcessor(table, VariableCacheProvider(), VariableProcessorConfig())
    frame_locals = {"before": "x", "offender": value, "after": [1, 2]}
    try:
        vid, _ = proc.process_variable("locals", frame_locals)
        names = [c.name for c in table[vid.vid].children]
        if names != ["before", "offender", "after"]:
            bad.append("%s: locals recorded %s instead of before/offender/after" % (label, names))
        for child in table[vid.vid].children:
            if child.vid not in table:
                bad.append("%s: local %s has no table entry" % (label, child.name))
            if not all(isinstance(c.name, str) for c in table[child.vid].children):
                bad.append("%s: a child name is not text" % label)
    except BaseException as e:      # noqa
        bad.append("a local of kind '%s' aborts the whole collection: %r" % (label, e))
for b in bad:
    print("REPRODUCED:", b)
sys.exit(1 if bad else 0)
