"""Obligation name (regex) -> replay driver script (run natively on /repo with /venv/bin/python)."""
DRIVERS = [
    (r"thread_local\.py:ThreadLocal\.", "c15_threadlocal.py"),
    (r"TriggerContext\.evaluate_expression/PRE/call:eval/", "c10_eval_scope.py"),
]
