"""Obligation name (regex) -> replay driver script (run natively on /repo with /venv/bin/python)."""
DRIVERS = [
    (r"(TriggerHandler\.trace_call|TriggerHandler\.__process_call_backs|FunctionLocation\.at_location|TriggerHandler\.__actions_for_location)/(SIG|POST/store-invariant|POST/tracing)", "c01_trace_call_escapes.py"),
    (r"thread_local\.py:ThreadLocal\.", "c15_threadlocal.py"),
    (r"TriggerContext\.evaluate_expression/PRE/call:eval/", "c10_eval_scope.py"),
]
