"""Obligation name (regex) -> replay driver script (run natively on /repo with /venv/bin/python)."""
DRIVERS = [
    (r"TriggerContext\.evaluate_expression/PRE/call:eval/", "c10_eval_scope.py"),
]
