"""Obligation name (regex) -> replay driver script (run natively on /repo with /venv/bin/python)."""
DRIVERS = [
    (r"grpc/__init__\.py:convert_response/SIG/", "c11_unknown_metric_type.py"),
    (r"api/plugin/__init__\.py:(Plugin\.is_active|load_plugins)/", "c20_plugin_switch.py"),
    (r"push/__init__\.py:|grpc/__init__\.py:(convert_value|__convert_attributes|convert_resource|safe_text)/", "c08_wire.py"),
    (r"LogActionResult\.process/LOG", "c16_log_ids.py"),
    (r"TracepointConfigService\.(add_custom|remove_custom)/", "c13_handles.py"),
    (r"TaskHandler\.flush/", "c09_flush.py"),
    (r"config/__init__\.py:IN_APP_|LongPoll\.start/PRE", "c19_env_config.py"),
    (r"SnapshotActionContext\._process_action/LOG/snapshot-starts", "c06_independent_snapshots.py"),
    (r"(variable_processor\.py|variable_set_processor\.py):.*/SIG/", "c06_total_collection.py"),
    (r"breadth_first_search/POST/loop#1/body", "c05_breadth_first.py"),
    (r"(TriggerHandler\.trace_call|TriggerHandler\.__process_call_backs|FunctionLocation\.at_location|TriggerHandler\.__actions_for_location)/(SIG|POST/store-invariant|POST/tracing)", "c01_trace_call_escapes.py"),
    (r"thread_local\.py:ThreadLocal\.", "c15_threadlocal.py"),
    (r"TriggerContext\.evaluate_expression/PRE/call:eval/", "c10_eval_scope.py"),
    (r"^__init__\.py:start/", "c19_app_root.py"),
    (r"ConfigService\.tracepoint_logger/", "c16_logger_lookup.py"),
]

# driver -> properties whose thorough tier runs it natively on the working tree (CPython cross-check of the clauses)
DRIVER_PROPS = {
    "c01_trace_call_escapes.py": ["C01"],
    "c05_breadth_first.py": ["C05"],
    "c06_independent_snapshots.py": ["C06", "C07"],
    "c06_total_collection.py": ["C06", "C02"],
    "c08_wire.py": ["C08"],
    "c09_flush.py": ["C09"],
    "c10_eval_scope.py": ["C10"],
    "c11_unknown_metric_type.py": ["C11"],
    "c13_handles.py": ["C13"],
    "c15_threadlocal.py": ["C15"],
    "c16_log_ids.py": ["C16"],
    "c19_env_config.py": ["C19"],
    "c19_app_root.py": ["C19"],
    "c16_logger_lookup.py": ["C16"],
    "c20_plugin_switch.py": ["C20"],
}
