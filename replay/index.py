"""Obligation name (regex) -> replay driver script (run natively on /repo with /venv/bin/python)."""
DRIVERS = [
    (r"LogActionResult\.process/LOG", "c16_log_ids.py"),
    (r"TracepointConfigService\.(add_custom|remove_custom)/", "c13_handles.py"),
    (r"TaskHandler\.flush/", "c09_flush.py"),
    (r"config/__init__\.py:IN_APP_|LongPoll\.start/PRE", "c19_env_config.py"),
    (r"SnapshotActionContext\._process_action/LOG/snapshot-starts", "c06_independent_snapshots.py"),
    (r"(variable_processor\.py|variable_set_processor\.py):.*/SIG/", "c06_total_collection.py"),
    (r"breadth_first_search/POST/loop#1/body", "c05_breadth_first.py"),
    (r"(TriggerHandler\.trace_call|TriggerHandler\.__process_call_backs|FunctionLocation\.at_location|TriggerHandler\.__actions_for_location)/(SIG|POST/store-invariant|POST/tracing)", "c01_trace_call_escapes.py"),
    (r"thread_local\.py:ThreadLocal\.", "c15_threadlocal.py"),
    (r"TriggerContext\.evaluate_expression/PRE/call:eval/", "c10_eval_scope.py"),
]
