"""Replay for ThreadLocal.* postconditions: each instance keeps its own per-thread entries; set/get/clear of
one instance (and one thread) leaves every other entry alone.  Exit 1 = violated on the real code."""
import sys, threading
from deep.thread_local import ThreadLocal

bad = []
a, b = ThreadLocal(lambda: "default-a"), ThreadLocal(lambda: "default-b")
if a.is_set or b.is_set:
    bad.append("a new ThreadLocal already has an entry for this thread (is_set) - inherited from another instance")
a.set("A")
if b.is_set:
    bad.append("a.set('A') made b.is_set True: two ThreadLocal instances share one store")
if b.get() != "default-b":
    bad.append("b.get() returned %r, a's value, instead of b's default" % (b.get(),))
b.set("B")
if a.get() != "A":
    bad.append("b.set('B') changed a's value to %r" % (a.get(),))
b.clear()
if not a.is_set:
    bad.append("b.clear() removed a's entry")
seen = {}
t = threading.Thread(target=lambda: seen.update(v=a.is_set))
t.start(); t.join()
if seen.get("v"):
    bad.append("another thread sees this thread's entry")
for x in bad:
    print("REPRODUCED:", x)
sys.exit(1 if bad else 0)
