"""Replay for TriggerContext.evaluate_expression/PRE/call:eval/* : expressions must see the paused frame's
globals and locals and nothing of the agent's.  Exit 1 = violation reproduced on the real code."""
import sys, types
from deep.processor.context.trigger_context import TriggerContext

host = types.ModuleType("hostmod")
exec("HOST_GLOBAL = 41\ndef f(x):\n    y = x + 1\n    import sys\n    return sys._getframe()\n", host.__dict__)
frame = host.f(1)
ctx = TriggerContext(None, None, frame, "line", None)
bad = []
r = ctx.evaluate_expression("HOST_GLOBAL + y")
if r != 43:
    bad.append("watch 'HOST_GLOBAL + y' (module global + local of the paused frame) -> %r, expected 43" % (r,))
for name in ("uuid", "FrameCollector", "TriggerContext"):
    r = ctx.evaluate_expression(name)
    if not isinstance(r, BaseException):
        bad.append("watch %r resolves to the agent's own global %r" % (name, r))
for b in bad:
    print("REPRODUCED:", b)
sys.exit(1 if bad else 0)
