"""Replay for LogActionResult.process/LOG/message-tracepoint-id-context-id-in-their-places. Exit 1 = violated."""
import sys
from deep.processor.context.log_action import LogActionResult
from deep.api.plugin import TracepointLogger


class Rec(TracepointLogger):
    def __init__(self): self.calls = []
    def log_tracepoint(self, log_msg, tp_id, ctx_id): self.calls.append({"log_msg": log_msg, "tp_id": tp_id, "ctx_id": ctx_id})


class Cfg:
    def __init__(self, lg): self.tracepoint_logger = lg


class Ctx:
    id = "CONTEXT-ID"
    def __init__(self, cfg): self.config = cfg


class Action:
    id = "TRACEPOINT-ID"


rec = Rec()
LogActionResult(Action(), "[deep] hello").process(Ctx(Cfg(rec)))
bad = []
if rec.calls != [{"log_msg": "[deep] hello", "tp_id": "TRACEPOINT-ID", "ctx_id": "CONTEXT-ID"}]:
    bad.append("log_tracepoint received %r: tracepoint id and context id are not in their own places" % (rec.calls,))
for b in bad:
    print("REPRODUCED:", b)
sys.exit(1 if bad else 0)
