"""Replay for TracepointConfigService.add_custom/remove_custom obligations: a handle removes exactly its own
registration, also when registrations share file and line; an uninterpretable registration installs nothing.
Exit 1 = violated."""
import sys
from deep.config.tracepoint_config import TracepointConfigService
bad = []
s = TracepointConfigService()
h1 = s.add_custom("app.py", 10, {"log_msg": "first", "snapshot": "no_collect"}, [], [])
h2 = s.add_custom("app.py", 10, {"log_msg": "second", "snapshot": "no_collect"}, [], [])
if h1 == h2:
    bad.append("two registrations on app.py:10 got the same handle %r" % (h1,))
first, second = s._custom[0], s._custom[1]
s.remove_custom(h2)
if s._custom != [first] or s._custom[0] is not first:
    bad.append("unregistering the SECOND registration on app.py:10 left %d registration(s) and removed the wrong one" % len(s._custom))
s.remove_custom(h2)
if len(s._custom) != 1:
    bad.append("unregistering twice removed another registration")
try:
    n = len(s._custom)
    s.add_custom("app.py", 11, {"stage": "no_such_stage"}, [], [])
    if len(s._custom) != n or any(x is None for x in s._custom):
        bad.append("an uninterpretable registration left %r in the custom list" % (s._custom[n:],))
except Exception as e:
    if any(x is None for x in s._custom):
        bad.append("an uninterpretable registration raised %r AND left None in the custom list" % (e,))
for b in bad:
    print("REPRODUCED:", b)
sys.exit(1 if bad else 0)
