"""Replay for convert_response/SIG/.../call:__convert_metric_definition: a tracepoint whose metric has a type number this
client does not know (a newer service) must affect only itself - the other tracepoints of the response are still
installed.  Exit 1 = violated on the real code."""
import sys
from deepproto.proto.tracepoint.v1.tracepoint_pb2 import TracePointConfig, Metric
from deep.grpc import convert_response

good = TracePointConfig(ID="good", path="a.py", line_number=3, args={}, watches=[])
odd = TracePointConfig(ID="odd", path="b.py", line_number=7, args={}, watches=[],
                       metrics=[Metric(name="m", type=99)])
bad = []
for order in ([odd, good], [good, odd]):
    try:
        triggers = convert_response(order)
    except Exception as e:
        bad.append("response %s: convert_response raised %r - no tracepoint of the response is installed"
                   % ([t.ID for t in order], e))
        continue
    ids = [a.tracepoint.id for t in triggers for a in t.actions]
    if "good" not in ids:
        bad.append("response %s: the interpretable tracepoint was not installed (%r)" % ([t.ID for t in order], ids))
for b in bad:
    print("REPRODUCED:", b)
sys.exit(1 if bad else 0)
