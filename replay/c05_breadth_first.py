"""Replay for breadth_first_search/POST/loop#1/body/*: the work list must be FIFO so that shallower variables
win when the variable budget runs out.  Exit 1 = violated on the real code."""
import sys
from deep.processor.variable_set_processor import VariableSetProcessor, VariableCacheProvider, VariableProcessorConfig
from deep.processor.bfs import Node, NodeValue, ParentNode, breadth_first_search

bad = []
# 1. the search order itself
order = []
class P(ParentNode):
    def add_child(self, child): pass
def mk(name, kids=()):
    n = Node(NodeValue(name, name), parent=P()); n._kids = kids; return n
tree = {"a": ["a1", "a2"], "b": ["b1"], "c": []}
def consumer(node):
    if node.value is not None:
        order.append(node.value.name)
        node.add_children([mk(k) for k in tree.get(node.value.name, [])])
    return True
breadth_first_search(Node(None, [mk("a"), mk("b"), mk("c")], P()), consumer)
if order != ["a", "b", "c", "a1", "a2", "b1"]:
    bad.append("visit order %s is not breadth-first (expected a b c a1 a2 b1)" % order)

# 2. the user-visible effect: a large early local must not crowd out later locals under a small budget
cfg = VariableProcessorConfig(max_variables=6, max_collection_size=50)
table = {}
proc = VariableSetProcessor(table, VariableCacheProvider(), cfg)
frame_locals = {"big": [[i] for i in range(20)], "x": "one", "y": "two", "z": "three"}
vid, _ = proc.process_variable("locals", frame_locals)
names = [c.name for c in table[vid.vid].children] if vid.vid in table else []
missing = [n for n in ("big", "x", "y", "z") if n not in names]
if missing:
    bad.append("budget of 6 variables: frame locals %s were crowded out by the contents of 'big' (recorded: %s)" % (missing, names))
for b in bad:
    print("REPRODUCED:", b)
sys.exit(1 if bad else 0)
