"""Replay for the C19 obligations of deep.start (specs/c19b_start.py): the application root given in code wins over
DEEP_APP_ROOT, which wins over the calculated default, and no other code-supplied setting is changed.  The services are
not built (Deep is replaced by a recorder in this process); exit 1 = violated on the real code."""
import os, sys
bad = []
import deep
import deep.logging


class _Recorder:
    def __init__(self, cfg):
        self.config = cfg

    def start(self):
        pass


deep.Deep = _Recorder
deep.logging.init = lambda cfg=None: None
here_root = os.path.dirname(os.path.dirname(os.path.abspath(__file__)))


def run(env, config):
    if env is None:
        os.environ.pop("DEEP_APP_ROOT", None)
    else:
        os.environ["DEEP_APP_ROOT"] = env
    given = None if config is None else dict(config)
    d = deep.start(config)
    return d.config, given


for env in (None, "", "/from/env"):
    for config in (None, {}, {"SERVICE_URL": "x:1"}, {"APP_ROOT": "/from/code", "SERVICE_URL": "x:1"}):
        try:
            cfg, given = run(env, config)
        except Exception as e:
            bad.append("deep.start(%r) with DEEP_APP_ROOT=%r raised %r" % (config, env, e))
            continue
        want = given["APP_ROOT"] if given and "APP_ROOT" in given else (env if env else here_root)
        if cfg.APP_ROOT != want:
            bad.append("deep.start(%r) with DEEP_APP_ROOT=%r: APP_ROOT resolves to %r, expected %r" % (given, env, cfg.APP_ROOT, want))
        for k, v in (given or {}).items():
            if k != "APP_ROOT" and getattr(cfg, k) != v:
                bad.append("deep.start(%r): setting %s changed to %r" % (given, k, getattr(cfg, k)))
for b in bad:
    print("REPRODUCED:", b)
sys.exit(1 if bad else 0)
