"""C08 replay: collected snapshots against the real converter, field by field against an expectation built here from the
source objects (not from the converter), then through bytes and back.  exit 1 = a field is lost, changed, swapped, or the
snapshot is discarded."""
import sys
from deep.api.tracepoint.eventsnapshot import EventSnapshot, StackFrame, Variable, VariableId, WatchResult
from deep.api.tracepoint.tracepoint_config import TracePointConfig
from deep.api.resource import Resource
from deep.push import convert_snapshot
from deep.grpc import convert_value, convert_resource
from deepproto.proto.tracepoint.v1.tracepoint_pb2 import Snapshot, WatchSource

bad = []


def note(msg):
    if msg not in bad:
        bad.append(msg)


def esc(s):
    """what a protobuf string can carry of s"""
    if s is None:
        return None
    try:
        s.encode("utf-8")
        return s
    except UnicodeEncodeError:
        return s.encode("utf-8", "backslashreplace").decode("utf-8")


def has(msg, field):
    try:
        return msg.HasField(field)
    except ValueError:
        return True


def eq_opt(msg, field, want, what):
    if want is None:
        if has(msg, field) and getattr(msg, field) not in ("", 0, False):
            note("%s: expected unset, got %r" % (what, getattr(msg, field)))
    elif getattr(msg, field) != want:
        note("%s: expected %r, got %r" % (what, want, getattr(msg, field)))


def check_vid(m, v, what):
    if v is None:
        return
    eq_opt(m, "ID", v.vid, what + ".ID")
    eq_opt(m, "name", esc(v.name), what + ".name")
    if list(m.modifiers) != list(v.modifiers):
        note("%s.modifiers: expected %r, got %r" % (what, list(v.modifiers), list(m.modifiers)))
    eq_opt(m, "original_name", esc(v.original_name), what + ".original_name")


def check_any(m, v, what):
    if isinstance(v, bool):
        ok = m.WhichOneof("value") == "bool_value" and m.bool_value == v
    elif isinstance(v, str):
        ok = m.WhichOneof("value") == "string_value" and m.string_value == esc(v)
    elif isinstance(v, int):
        ok = m.WhichOneof("value") == "int_value" and m.int_value == v
    elif isinstance(v, float):
        ok = m.WhichOneof("value") == "double_value" and m.double_value == v
    elif isinstance(v, (tuple, list)):
        ok = m.WhichOneof("value") == "array_value" and len(m.array_value.values) == len(v)
        if ok:
            for i, e in enumerate(v):
                check_any(m.array_value.values[i], e, "%s[%d]" % (what, i))
    else:
        ok = True
    if not ok:
        note("%s: value %r reaches the wire as %r" % (what, v, str(m).strip()))


def check_kvs(kvs, attrs, what):
    items = list(attrs.items())
    if len(kvs) != len(items):
        note("%s: %d attributes, %d on the wire" % (what, len(items), len(kvs)))
        return
    for kv, (k, v) in zip(kvs, items):
        if kv.key != esc(k):
            note("%s: key %r on the wire as %r" % (what, k, kv.key))
        if not kv.HasField("value"):
            note("%s[%r] = %r reaches the wire without a value" % (what, k, v))
        else:
            check_any(kv.value, v, "%s[%r]" % (what, k))


def check(s, label):
    msg = convert_snapshot(s)
    if msg is None:
        note("%s: snapshot discarded (convert_snapshot returned None)" % label)
        return
    try:
        back = Snapshot.FromString(msg.SerializeToString())
    except Exception as e:
        note("%s: does not survive serialisation: %r" % (label, e))
        return
    if back != msg:
        note("%s: differs after the bytes round trip" % label)
    m = back
    if m.ID != s.id.to_bytes(16, "big"):
        note("%s: ID" % label)
    tp = s.tracepoint
    if (m.tracepoint.ID, m.tracepoint.path, m.tracepoint.line_number, dict(m.tracepoint.args), list(m.tracepoint.watches)) != \
            (tp.id, tp.path, max(tp.line_no, 0), dict(tp.args), list(tp.watches)):
        note("%s: tracepoint config differs" % label)
    if m.ts_nanos != s.ts_nanos:
        note("%s: ts_nanos %r != %r" % (label, m.ts_nanos, s.ts_nanos))
    if m.duration_nanos != s.duration_nanos:
        note("%s: duration_nanos %r != %r" % (label, m.duration_nanos, s.duration_nanos))
    if len(m.frames) != len(s.frames):
        note("%s: %d frames, %d on the wire" % (label, len(s.frames), len(m.frames)))
    for i, (fm, f) in enumerate(zip(m.frames, s.frames)):
        w = "%s.frames[%d]" % (label, i)
        eq_opt(fm, "file_name", esc(f.file_name), w + ".file_name")
        eq_opt(fm, "short_path", esc(f.short_path), w + ".short_path")
        eq_opt(fm, "method_name", esc(f.method_name), w + ".method_name")
        eq_opt(fm, "line_number", f.line_number, w + ".line_number")
        eq_opt(fm, "class_name", esc(f.class_name), w + ".class_name")
        eq_opt(fm, "is_async", f.is_async, w + ".is_async")
        eq_opt(fm, "column_number", f.column_number, w + ".column_number")
        eq_opt(fm, "app_frame", f.app_frame, w + ".app_frame")
        eq_opt(fm, "transpiled_file_name", esc(f.transpiled_file_name), w + ".transpiled_file_name")
        eq_opt(fm, "transpiled_line_number", f.transpiled_line_number, w + ".transpiled_line_number")
        eq_opt(fm, "transpiled_column_number", f.transpiled_column_number, w + ".transpiled_column_number")
        if len(fm.variables) != len(f.variables):
            note("%s: %d variables, %d on the wire" % (w, len(f.variables), len(fm.variables)))
        for j, (vm, v) in enumerate(zip(fm.variables, f.variables)):
            check_vid(vm, v, "%s.variables[%d]" % (w, j))
    if set(m.var_lookup) != set(s.var_lookup):
        note("%s: variable table keys %r, on the wire %r" % (label, sorted(s.var_lookup), sorted(m.var_lookup)))
    for k, v in s.var_lookup.items():
        if k not in m.var_lookup:
            continue
        vm = m.var_lookup[k]
        w = "%s.var_lookup[%r]" % (label, k)
        eq_opt(vm, "type", esc(v.type), w + ".type")
        eq_opt(vm, "value", esc(v.value), w + ".value")
        eq_opt(vm, "hash", v.hash, w + ".hash")
        eq_opt(vm, "truncated", v.truncated, w + ".truncated")
        if len(vm.children) != len(v.children):
            note("%s: %d children, %d on the wire" % (w, len(v.children), len(vm.children)))
        for j, (cm, c) in enumerate(zip(vm.children, v.children)):
            check_vid(cm, c, "%s.children[%d]" % (w, j))
    if len(m.watches) != len(s.watches):
        note("%s: %d watches, %d on the wire" % (label, len(s.watches), len(m.watches)))
    for i, (wm, w_) in enumerate(zip(m.watches, s.watches)):
        w = "%s.watches[%d]" % (label, i)
        eq_opt(wm, "expression", esc(w_.expression), w + ".expression")
        if w_.error is not None:
            if wm.WhichOneof("result") != "error_result" or wm.error_result != esc(w_.error):
                note("%s: error %r on the wire as %r" % (w, w_.error, str(wm).strip()))
        else:
            if wm.WhichOneof("result") != "good_result":
                note("%s: result lost" % w)
            else:
                check_vid(wm.good_result, w_.result, w + ".good_result")
        if wm.source != WatchSource.Value(w_.source):
            note("%s: source %r on the wire as %r" % (w, w_.source, wm.source))
    check_kvs(m.attributes, s.attributes, label + ".attributes")
    check_kvs(m.resource, s.resource.attributes, label + ".resource")
    eq_opt(m, "log_msg", esc(s.log_msg), label + ".log_msg")


def snap(value="v", name="n", attrs=None, fname="some/file.py", watches=(), log=None, line=12):
    tp = TracePointConfig("tp1", "some/file.py", line, {"fire_count": "3", "condition": "x > 1"}, ["a.b", "c"], [])
    frames = [StackFrame(fname, "file.py", "method", 12, [VariableId("1", name, ["private"], "_C__n"), VariableId("2", "other")],
                         "Klass", app_frame=True, is_async=False, column_number=4, transpiled_file_name="t.ts",
                         transpiled_line_number=99, transpiled_column_number=7),
              StackFrame("/usr/lib/x.py", "x.py", "<module>", 1, [], None)]
    lookup = {"1": Variable("str", value, "1001", [VariableId("3", "child", ["static"])], True),
              "2": Variable("int", "5", "1002", [], False),
              "3": Variable("list", "Size: 0", "1003", [], False)}
    s = EventSnapshot(tp, 1_700_000_000_000_000_000, Resource.create({"service.name": "svc", "n": 7, "tags": ["x", "y"]}),
                      frames, lookup)
    for w in watches:
        s.add_watch_result(w)
    for k, v in (attrs or {}).items():
        s.attributes[k] = v
    if log is not None:
        s.log_msg = log
    s.complete()
    return s


# 1. an encodable snapshot with every optional field set, both kinds of watch, every kind of attribute value
check(snap(attrs={"seq": ["a", "b"], "nums": (1, 2), "n": 3, "flag": True, "ratio": 0.5, "text": "t"},
           watches=[WatchResult("WATCH", "a.b", VariableId("2", "a.b")), WatchResult("LOG", "1/0", None, "ZeroDivisionError"),
                    WatchResult("METRIC", "m", VariableId("1", "m")), WatchResult("CAPTURE", "c", VariableId("3", "c"))],
           log="hello {a.b}"), "full")
# 2. optional fields unset, empty tables
s2 = EventSnapshot(TracePointConfig("tp2", "f.py", -1, {}, [], []), 1, Resource.create({}),
                   [StackFrame("f.py", None, "m", 0, [], None)], {})
s2.complete()
check(s2, "minimal")
# 3. text that cannot be encoded as UTF-8 (lone surrogates, e.g. from os.fsdecode or application data)
for what, kw in (("value", dict(value="caf\udce9")), ("name", dict(name="k\ud800")),
                 ("file name", dict(fname="/srv/\udcff.py")), ("attribute", dict(attrs={"user": "x\udc80"})),
                 ("watch error", dict(watches=[WatchResult("WATCH", "e", None, "bad \udc80")])), ("log", dict(log="m \ud800"))):
    check(snap(**kw), "unencodable " + what)
# 4. convert_value over everything the attribute store can hold
for v in (True, 1, -2 ** 63, 2 ** 63 - 1, 1.5, "s", ("a", "b"), (1, 2), (), ["x"]):
    r = convert_value(v)
    if r is None:
        note("convert_value(%r) -> None" % (v,))
    else:
        check_any(r, v, "convert_value(%r)" % (v,))
# 5. the resource of a poll request
res = Resource.create({"service.name": "svc", "tags": ("a", "b"), "n": 1})
rm = convert_resource(res)
check_kvs(rm.attributes, res.attributes, "convert_resource")
if rm.dropped_attributes_count != res.attributes.dropped:
    note("convert_resource: dropped count")
for b in bad:
    print("C08:", b)
sys.exit(1 if bad else 0)
