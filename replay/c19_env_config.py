"""Replay for C19 obligations on environment-supplied settings: DEEP_IN_APP_EXCLUDE with a comma, DEEP_POLL_TIMER.
Exit 1 = violated on the real code."""
import os, sys, importlib
bad = []
os.environ["DEEP_IN_APP_EXCLUDE"] = "/opt/vendor,/usr/lib/thirdparty"
os.environ["DEEP_IN_APP_INCLUDE"] = "/srv/app,/srv/shared"
os.environ["DEEP_POLL_TIMER"] = "5"
import deep.config as cfg
importlib.reload(cfg)
from deep.config.config_service import ConfigService
svc = ConfigService({"APP_ROOT": "/srv/app"})
exc = svc.IN_APP_EXCLUDE
if not all(isinstance(x, str) for x in exc):
    bad.append("DEEP_IN_APP_EXCLUDE='a,b' resolves to %r: not a flat list of prefixes" % (exc,))
try:
    r = svc.is_app_frame("/opt/vendor/lib.py")
    if r[0] is not False:
        bad.append("file under an excluded prefix classified as app frame: %r" % (r,))
    r = svc.is_app_frame("/srv/shared/x.py")
    if r != (True, "/srv/shared"):
        bad.append("file under an include prefix: %r" % (r,))
except Exception as e:
    bad.append("is_app_frame raised %r with DEEP_IN_APP_EXCLUDE given as comma separated text" % (e,))
pt = svc.POLL_TIMER
try:
    from deep.poll.poll import LongPoll
    LongPoll.poll = lambda self: None          # no network: only the timer set-up is exercised
    lp = LongPoll(svc, None)
    lp.start()
    try:
        _ = lp.timer._time                      # what the timer thread computes before every wait
    finally:
        lp.shutdown()
except Exception as e:
    bad.append("DEEP_POLL_TIMER=5 resolves to %r and the poll timer cannot be set up / fails: %r" % (pt, e))
for b in bad:
    print("REPRODUCED:", b)
sys.exit(1 if bad else 0)
