#!/bin/sh
# usage: selftest/run_seed.sh <seed PID> [property ids to check; default = seed's property]
# applies seeded/<PID>/patch.diff to /repo, runs the checks, reverts /repo. Prints rc per check.
S=$1; shift; PROPS=${@:-$S}
cd /verif
if [ -n "$(git -C /repo status --porcelain)" ]; then echo "repo dirty - abort"; exit 9; fi
PATCH=/verif/seeded/$S/patch.diff; [ -f /verif/seeded/$S/patch_on_fixed_tree.diff ] && PATCH=/verif/seeded/$S/patch_on_fixed_tree.diff
git -C /repo apply --3way $PATCH 2>/tmp/apply.$$.err || git -C /repo apply $PATCH 2>>/tmp/apply.$$.err || { echo "APPLY FAILED $S"; cat /tmp/apply.$$.err; git -C /repo reset -q --hard HEAD; exit 8; }
for P in $PROPS; do
  bin/check $P > out/seedrun_${S}_$P.log 2>&1; rc=$?
  echo "seed=$S check=$P rc=$rc $(grep -c '^VIOLATION' out/seedrun_${S}_$P.log) violation(s): $(grep '^obligation failed' out/seedrun_${S}_$P.log | head -3 | tr '\n' ' ')"
  grep -E "^UNDECIDED|CHECKER-ERROR" out/seedrun_${S}_$P.log | head -3
done
git -C /repo reset -q; git -C /repo checkout -q -- .; git -C /repo status --porcelain | head -3
rm -f /tmp/apply.$$.err
