#!/bin/sh
# usage: selftest/run_seed_scratch.sh <seed dir name> <check ids...>
# applies seeded/<seed>/patch(_on_fixed_tree).diff to a scratch copy of /repo/src (never to /repo) and runs the checks on it
S=$1; shift
cd /verif
T=$(mktemp -d /tmp/pyvc_seed_XXXXXX)
cp -r /repo/src $T/src
PATCH=seeded/$S/patch.diff; [ -f seeded/$S/patch_on_fixed_tree.diff ] && PATCH=seeded/$S/patch_on_fixed_tree.diff
if ! (cd $T && patch -p1 -s -f -i /verif/$PATCH > $T/patch.log 2>&1); then echo "seed=$S APPLY-FAILED $(head -2 $T/patch.log | tr '\n' ' ')"; rm -rf $T; exit 8; fi
mkdir -p out/seedruns
for P in "$@"; do
  PYVC_REPO_SRC=$T/src PYVC_EVIDENCE_DIR=$T/evidence PYVC_REPLAY_DIR=$T/replay bin/check $P --tier quick > out/seedruns/${S}_$P.log 2>&1; rc=$?
  echo "seed=$S check=$P rc=$rc viol=$(grep -c '^VIOLATION' out/seedruns/${S}_$P.log) : $(grep -E '^obligation (failed|no longer)' out/seedruns/${S}_$P.log | head -2 | sed 's/obligation failed: //;s/obligation no longer provable: /[unprovable] /' | tr '\n' ' ') $(grep -E '^UNDECIDED|CHECKER-ERROR' out/seedruns/${S}_$P.log | head -1 | cut -c1-160)"
done
rm -rf $T
