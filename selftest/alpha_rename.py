#!/usr/bin/env python3
"""Property-preserving refactor for the self-test: rename every local variable (not parameters, not globals /
nonlocals, not names used by nested scopes) in every function of a copy of the source tree, and re-emit the files
with ast.unparse (which also drops comments and normalises layout).  The checks must stay green on the result.
usage: alpha_rename.py <src-root-copy>"""
import ast
import os
import sys


class Renamer(ast.NodeTransformer):
    def __init__(self, mapping):
        self.m = mapping

    def visit_Name(self, n):
        if n.id in self.m:
            n.id = self.m[n.id]
        return n

    def visit_ExceptHandler(self, n):
        if n.name in self.m:
            n.name = self.m[n.name]
        self.generic_visit(n)
        return n

    def visit_FunctionDef(self, n):      # do not descend into nested scopes
        return n
    visit_AsyncFunctionDef = visit_Lambda = visit_ClassDef = visit_FunctionDef


def locals_of(fn):
    params = {a.arg for a in fn.args.posonlyargs + fn.args.args + fn.args.kwonlyargs}
    if fn.args.vararg:
        params.add(fn.args.vararg.arg)
    if fn.args.kwarg:
        params.add(fn.args.kwarg.arg)
    assigned, banned = set(), set(params)
    nested_used = set()

    def walk(node, top):
        for ch in ast.iter_child_nodes(node):
            if isinstance(ch, (ast.FunctionDef, ast.AsyncFunctionDef, ast.Lambda, ast.ClassDef)):
                if isinstance(ch, (ast.FunctionDef, ast.AsyncFunctionDef, ast.ClassDef)):
                    banned.add(ch.name)
                for x in ast.walk(ch):
                    if isinstance(x, ast.Name):
                        nested_used.add(x.id)
                continue
            if isinstance(ch, (ast.ListComp, ast.SetComp, ast.DictComp, ast.GeneratorExp)):
                for x in ast.walk(ch):
                    if isinstance(x, ast.Name):
                        nested_used.add(x.id)        # comprehension scopes: leave their names alone
                continue
            if isinstance(ch, (ast.Global, ast.Nonlocal)):
                banned.update(ch.names)
            if isinstance(ch, ast.Name) and isinstance(ch.ctx, (ast.Store, ast.Del)):
                assigned.add(ch.id)
            if isinstance(ch, ast.ExceptHandler) and ch.name:
                assigned.add(ch.name)
            if isinstance(ch, (ast.Import, ast.ImportFrom)):
                for a in ch.names:
                    banned.add((a.asname or a.name).split(".")[0])
            walk(ch, False)
    walk(fn, True)
    return {v for v in assigned if v not in banned and v not in nested_used and not v.startswith("__")}


def process(tree):
    n = 0
    for node in ast.walk(tree):
        if isinstance(node, (ast.FunctionDef, ast.AsyncFunctionDef)):
            loc = locals_of(node)
            if not loc:
                continue
            m = {v: v + "_rn" for v in loc}
            r = Renamer(m)
            node.body = [r.visit(s) if not isinstance(s, (ast.FunctionDef, ast.AsyncFunctionDef, ast.ClassDef)) else s
                         for s in node.body]
            n += len(m)
    return n


def main(root):
    total = 0
    for dp, _dn, fns in os.walk(root):
        for fn in fns:
            if fn.endswith(".py"):
                p = os.path.join(dp, fn)
                src = open(p).read()
                tree = ast.parse(src)
                total += process(tree)
                open(p, "w").write(ast.unparse(tree) + "\n")
    print("renamed %d locals" % total)


if __name__ == "__main__":
    main(sys.argv[1])
