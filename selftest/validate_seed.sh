#!/bin/sh
# usage: validate_seed.sh <PID> <scratch-worktree>   -- confirms a seeded change independently
# 1 demo passes on clean tree, 2 demo fails with patch, 3 test suite (baseline pass set) still passes with patch
P=$1; WT=$2; V=/verif/seeded/$P; OUT=/verif/out/seedval/$P; mkdir -p $OUT
git -C $WT checkout -q -- . && git -C $WT clean -fdq -e TASK.md
cd $WT || exit 9
PYTHONPATH=$WT/src timeout 300 /venv/bin/python $V/demo_${DEMO:-$P}.py > $OUT/demo_clean.log 2>&1; echo "demo_clean_exit=$?" > $OUT/result
git -C $WT apply $V/patch.diff || { echo "apply_failed=1" >> $OUT/result; exit 1; }
PYTHONPATH=$WT/src timeout 300 /venv/bin/python $V/demo_${DEMO:-$P}.py > $OUT/demo_patched.log 2>&1; echo "demo_patched_exit=$?" >> $OUT/result
unshare -rn sh -c "ip link set lo up; cd $WT && timeout 900 /venv/bin/python -m pytest -q -p no:cacheprovider --timeout=900 --continue-on-collection-errors tests/it_tests tests/unit_tests --deselect tests/unit_tests/api/plugin/metrics/test_otel_metrics.py" > $OUT/tests.log 2>&1
echo "tests_exit=$?" >> $OUT/result
tail -1 $OUT/tests.log >> $OUT/result
git -C $WT checkout -q -- .
