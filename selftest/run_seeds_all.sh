cd /verif
R=selftest/run_seed_scratch.sh
# affected by this round's changes first, then the rest; results are appended (mk_seed_table/update_meta take the last line per pair)
( $R C02 C02 C06; $R C16 C16; $R C19 C19; $R C05 C05; $R C13 C13; $R C20 C20; $R C07b C07 C02; $R C06 C06 C10
  $R C01 C01; $R C03 C03; $R C04 C04; $R C08 C08; $R C09 C09; $R C10 C10; $R C11 C11; $R C12 C12; $R C14 C14; $R C15 C15; $R C17 C17; $R C18 C18 ) >> out/seeds_r1.txt 2>&1 &
( $R R2_C02 C02 C07; $R R2_C16 C16; $R R2_C19 C19; $R R2_C20 C20 C15; $R R2_C05 C05; $R R2_C06 C06 C08; $R R2_C07 C07 C15; $R R2_C13 C13 C12; $R R2_C01 C01 C07; $R R2_C14 C14 C09
  $R R2_C03 C03 C01; $R R2_C04 C04; $R R2_C08 C08; $R R2_C09 C09; $R R2_C10 C10 C04; $R R2_C11 C11 C03; $R R2_C12 C12; $R R2_C15 C15; $R R2_C17 C17; $R R2_C18 C18 ) >> out/seeds_r2.txt 2>&1 &
( $R R3_C19 C19; $R R3_C16 C16 C20; $R R3_C01 C01 C06; $R R3_C20 C20 C02; $R R3_C07 C07 C16; $R R3_C05 C05 C02; $R R3_C02 C02 C06; $R R3_C06 C06
  $R R3_C13 C13 C12; $R R3_C12 C12 C19 ) >> out/seeds_r3.txt 2>&1 &
( $R R3_C08 C08; $R R3_C17 C17; $R R3_C03 C03 C11; $R R3_C04 C04 C10; $R R3_C09 C09; $R R3_C10 C10; $R R3_C11 C11; $R R3_C14 C14 C20; $R R3_C15 C15; $R R3_C18 C18 ) >> out/seeds_r3b.txt 2>&1 &
wait
echo DONE
