#!/usr/bin/env python3
"""Record in every seeded/<seed>/meta.json what the checks report for it on the current tree
(`caught_by`: the checks that exit 1 with a VIOLATION line; `results_on_current_tree`: every check that was run),
from the seed run logs out/seeds_r*.txt written by selftest/run_seed_scratch.sh.  Development helper; the checks
read `caught_by` to decide which seeds to re-apply in the thorough self-test, never anything else."""
import json
import os
import re
ROOT = os.path.dirname(os.path.dirname(os.path.abspath(__file__)))
rows = {}
for f in ("seeds_r1.txt", "seeds_r2.txt", "seeds_r3.txt", "seeds_r3b.txt"):
    p = os.path.join(ROOT, "out", f)
    if not os.path.exists(p):
        continue
    for l in open(p):
        m = re.match(r"seed=(\S+) check=(\S+) rc=(\d+) viol=(\d+) : (.*)", l)
        if m:
            s, c, rc, v, rest = m.groups()
            rows.setdefault(s, {})[c] = (int(rc), int(v), rest.strip())      # a later line for the same pair wins
TAG = {0: "not reported", 1: "caught", 2: "undecided", 3: "checker error"}
for s, res in sorted(rows.items()):
    mp = os.path.join(ROOT, "seeded", s, "meta.json")
    if not os.path.exists(mp):
        continue
    m = json.load(open(mp))
    if m.get("neutralised"):
        continue
    m["caught_by"] = sorted(c for c, (rc, v, _r) in res.items() if rc == 1 and v > 0)
    m["results_on_current_tree"] = {
        c: {"verdict": TAG.get(rc, str(rc)), "violations": v,
            "first": (r.split("  ")[0].split(" ")[0] if rc == 1 else r[:200])} for c, (rc, v, r) in sorted(res.items())}
    json.dump(m, open(mp, "w"), indent=1)
    open(mp, "a").write("\n")
    print(s, m["caught_by"])
