#!/bin/sh
# Property-preserving refactor self-test: alpha-rename every local of every function in a scratch copy of the working tree
# (selftest/alpha_rename.py; ast.unparse also drops comments and normalises layout) and run every check on the copy.
# Every check must still exit 0.  usage: selftest/run_refactor.sh [property ids...]
cd /verif
T=$(mktemp -d /tmp/pyvc_ren_XXXXXX)
cp -r /repo/src $T/src
python3 selftest/alpha_rename.py $T/src/deep
PROPS=${@:-$(python3 -c "import json;print(' '.join(c['property_id'] for c in json.load(open('MANIFEST.json'))['checks']))")}
for p in $PROPS; do
  PYVC_REPO_SRC=$T/src PYVC_EVIDENCE_DIR=$T/evidence PYVC_REPLAY_DIR=$T/replay bin/check $p --tier quick > $T/$p.log 2>&1; rc=$?
  echo "refactor=alpha-rename check=$p rc=$rc $(tail -1 $T/$p.log)"
  [ $rc -ne 0 ] && grep -E "^VIOLATION|^obligation|^UNDECIDED|CHECKER-ERROR" $T/$p.log | head -5
done
rm -rf $T
